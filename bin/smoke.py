#!/usr/bin/env python3
"""Development aid (NOT a check): run harness bodies natively on random small values to catch
mistakes in the harness oracles before spending solver time. usage: smoke.py <instance> [n]"""
import random, subprocess, sys
exe = "/verif/.build/replay/debug/replay"
inst = sys.argv[1]
n = int(sys.argv[2]) if len(sys.argv) > 2 else 300
bad = 0
for k in range(n):
    vals = [random.choice([random.randrange(0, 4), random.randrange(97, 101), random.randrange(0, 8), random.randrange(0, 2**32)]) for _ in range(64)]
    p = subprocess.run([exe, inst, ",".join(map(str, vals))], capture_output=True, text=True)
    if p.returncode not in (0, 3):
        bad += 1
        print("FAIL", p.returncode, vals[:16], p.stderr[-300:])
        if bad > 3: break
print("done", inst, "bad", bad)
