#!/bin/sh
# seedeval.sh <patch.diff> <tier> <Cxx>...   apply a seeded change to /repo, run the given checks, undo it.
# Prints one line per check: "<Cxx> exit=<n> <summary>" and the VIOLATION / INCONCLUSIVE lines.
cd "$(dirname "$0")/.."
PATCH="$1"; TIER="$2"; shift 2
git -C /repo apply "$PATCH" || { echo "patch does not apply"; exit 9; }
for p in "$@"; do
  VERIF_JOBS=${VERIF_JOBS:-12} python3 bin/vk.py check $p $TIER > .build/seed-$p.log 2>&1
  echo "$p exit=$? $(tail -1 .build/seed-$p.log)"
  grep -E "^VIOLATION|^   lemma|^INCONCLUSIVE|^KNOWN" .build/seed-$p.log | cut -c1-260 | head -8
done
git -C /repo checkout -- .
# the runs above rewrote evidence/<id>.json for a MUTATED tree: restore the committed evidence
git -C "$(pwd)" checkout -- evidence/ 2>/dev/null
rm -f replays/*.json
git -C /repo status --short | grep -v snap.new
