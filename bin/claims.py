"""Texts for MANIFEST.json: what each registered check claims, and why the rest is not claimed."""

HOOK_COMMITS = ["3736b75"]

STD_NOTE = ("Trusted base: Kani 0.68 MIR->GOTO translation, CBMC 6.11 + CaDiCaL, Kani's allocator model; "
            "S1 fnv::FnvHashMap replaced by an association list; T1 core::slice::sort::unstable::sort replaced by insertion sort; "
            "H1 thread_local! replaced by a leaked lazily initialised static. Claims hold for the shapes (lengths, counts) listed in the "
            "evidence file and for ALL contents of those shapes; nothing is claimed outside them.")

CLAIMS = {
    "C16": {
        "level": "Bounded model checking of the real DamerauLevenshtein::distance / DistMatrix: for every listed pair of word lengths "
                 "(up to 3x3 quick, 4x4 and 5x2 thorough) the solver shows the six laws of the property for ALL characters and ALL "
                 "character classes, and history independence from an ARBITRARY earlier matrix (inductive step: covers call histories "
                 "of any length). This is the right level because the laws quantify over all words; the tests evaluate ~15 pairs.",
        "note": STD_NOTE + " Words longer than 5 characters are outside the bound.",
    },
    "C17": {
        "level": "Bounded model checking of the real Jaccard::<char>::similarity / rel_dist / simple_similarity: for every listed pair of "
                 "lengths (up to 3x3 quick, 5x5 thorough) the value equals |A∩B|/|A∪B| for ALL characters, is symmetric, in [0,1], and "
                 "is independent of ARBITRARY earlier contents of the two scratch buffers (shorter, equal, longer).",
        "note": STD_NOTE + " Sequences longer than 5 characters (in particular beyond the initial capacity 20) are outside the bound.",
    },
}

_WIP = "check under construction in this session (see DESIGN.md); not claimed until its quick command passes on the unchanged tree"
NOT_APPLICABLE = {p: _WIP for p in ["C01", "C02", "C03", "C04", "C05", "C06", "C07", "C08", "C09", "C10", "C12", "C13", "C14", "C15", "C18", "C19"]}
NOT_APPLICABLE["C11"] = ("needs the per-language compose/reduce tables and Text::normalize end-to-end; Lang::unicode_compose/reduce are not "
                         "executable under Kani even on concrete input (memcmp-guarded Option, DESIGN F5) and nothing else installed "
                         "executes this Rust symbolically")
NOT_APPLICABLE["C20"] = ("the registry API is &str-only and runs the tokeniser on every call; Kani did not finish even with every title and "
                         "query the empty string (DESIGN F10)")
