"""Texts for MANIFEST.json: what each registered check claims, and why the rest is not claimed."""

HOOK_COMMITS = ["3736b75", "91e7521", "b807ae2"]

STD_NOTE = ("Trusted base: Kani 0.68 MIR->GOTO translation, CBMC 6.11 + CaDiCaL, Kani's allocator model; "
            "S1 fnv::FnvHashMap replaced by an association list; T1 core::slice::sort::unstable::sort replaced by insertion sort; "
            "H1 thread_local! replaced by a leaked lazily initialised static. Claims hold for the shapes (lengths, counts) listed in the "
            "evidence file and for ALL contents of those shapes; nothing is claimed outside them.")

CLAIMS = {
    "C16": {
        "level": "Bounded model checking of the real DamerauLevenshtein::distance / DistMatrix: for every listed pair of word lengths "
                 "(up to 3x3 quick, 4x4 and 5x2 thorough) the solver shows the six laws of the property for ALL characters and ALL "
                 "character classes, and history independence from an ARBITRARY earlier matrix (inductive step: covers call histories "
                 "of any length). This is the right level because the laws quantify over all words; the tests evaluate ~15 pairs.",
        "note": STD_NOTE + " Words longer than 5 characters are outside the bound.",
    },
    "C19": {
        "level": "The C16/C17 kernel harnesses with ALL CBMC pointer/bounds checks selected and hook H3 compiled in: for all contents of the "
                 "listed shapes and from arbitrary earlier buffer states (matrix one or two short of / equal to / larger than needed, Jaccard buffers shorter/longer and of small capacity) "
                 "every unchecked access of the distance matrix (row AND column below the dimension), the cost vectors and the Jaccard merge is "
                 "in range. Memory safety of unchecked indexing is exactly what a bounded model checker with pointer checks decides.",
        "note": STD_NOTE + " The trigram counters are covered on concrete one-letter titles only (MEM-counters).",
    },
    "C06": {
        "level": "Kernel level only. Solver-decided on real code: (LS-topk) LimitSortIter returns exactly min(limit,n) distinct input items in "
                 "comparator order with no better item omitted, for all keys, n <= 7, limit 1..6 - i.e. never more than limit, never twice, and "
                 "the first `limit` of the unlimited list. The clause 'the verdict depends only on the record and the query' is NOT decided (three "
                 "matcher calls in one harness exceed 24 GB); the composition into Store::search is an argument in DESIGN.md, not a solver result.",
        "note": STD_NOTE + " limit = 0 with non-empty input is excluded (Kani artefact F13). Store::search's wiring and the index cap are not executed.",
    },
    "C07": {
        "level": "Kernel level only. Solver-decided on real code: compare_hits is the documented lexicographic order on ALL score vectors (strict weak "
                 "order, ties only when all nine components incl. rating are equal) and LimitSortIter's output is determined by the multiset of keys "
                 "when they are distinct (so independent of insertion order). That two hits are ordered by their own vectors regardless of other "
                 "records follows from the scorer being a function of (record, query) - read, not solver-decided.",
        "note": STD_NOTE + " Store-level insertion-order experiments are not executable under Kani (DESIGN F10/F12).",
    },
    "C03": {
        "level": "Word level. Solver-decided on the REAL word_match: for every title word of 1-3 letters, every prefix length, finished/unfinished, "
                 "the listed stem lengths, and ALL characters/classes/POS flags, the prefix query matches with exactly the typed span and zero typos; "
                 "on the real length_check / jaccard_check alone (the matcher's two pre-filters) a prefix is accepted for words up to 6 letters; and on the "
                 "real collect_grams a prefix shares a gram with its word (n <= 5). The chain to 'the record is among the hits' is glued.",
        "note": STD_NOTE + " Matcher shapes above 3x3 exceed 40 GB; index posting lists and the tokeniser are not executed.",
    },
    "C13": {
        "level": "Word level. Solver-decided on the REAL word_match: a finished exact copy of a word of 1-3 letters matches in full with zero typos for "
                 "all characters/classes/flags and the listed stems; the two pre-filters accept an exact copy up to 6 letters. The multi-word assignment in text_match (either order) is NOT decided.",
        "note": STD_NOTE + " Only the per-word half of the property is claimed.",
    },
    "C05": {
        "level": "Word/text level. Solver-decided on REAL code: every successful word match has spans differing by at most one and within the word "
                 "(WM-contract), an exact prefix is highlighted exactly (WM-prefix), and at the text level no title span exceeds the typed stretch + 1 "
                 "(TM-span), for all contents of the listed shapes (words <= 3 letters).",
        "note": STD_NOTE + " The 'no unrelated hits' half rests on the index, which is only decided at the gram-set level (C18).",
    },
    "C09": {
        "level": "Match-structure level. Solver-decided on REAL text_match/score/hit_matches: spans are word-aligned, start at the first character, "
                 "non-empty, end inside the word, at most one per word, in order; a kept hit for a non-empty query has a span; an empty query yields none. "
                 "That highlight() renders exactly these spans as alternating markers is a 15-line reading, not a solver result (F11).",
        "note": STD_NOTE + " Shapes: one or two words of 1-3 letters.",
    },
    "C01": {
        "level": "Absence of panics, arithmetic overflow, failed unwrap/borrow and out-of-range indexing - decided by CBMC's own checks plus the "
                 "harness assertion 'typo penalty never exceeds the matched length' - in the real matcher, text matcher, scorer, filter and the "
                 "distance/Jaccard/LimitSort kernels and the registry's set_limit, for ALL contents of the listed small shapes. Checked == unchecked follows from 'no overflow on any path'.",
        "note": STD_NOTE + " Tokeniser, normalisation, Store, registry and highlight are not executed; the joined-word shapes (where the documented "
                           "underflow lives) need > 28 GB and are in the thorough tier only if they fit.",
    },
    "C18": {
        "level": "Gram-set level only: TrigramIter yields exactly the grams of the definition (n <= 6), collect_grams returns their duplicate-free "
                 "sorted set (n <= 5), and the cap/ordering primitive (LimitSortIter) keeps the best `cap` items. The index's add/prepare are not executable.",
        "note": STD_NOTE + " 'only existing records', 'no duplicates', 'all sharers listed' are NOT decided.",
    },
    "C08": {
        "level": "Scorer level. Solver-decided on the real score_* functions and compare_hits: each of the seven documented priorities holds for ALL "
                 "ratings and all word / prefix / tail lengths up to 40, GIVEN the match vectors of the scenario (full word, prefix, typo). That the "
                 "matcher produces those vectors is shown only for words up to 3 letters (WM lemmas); for the property's 5-9 letter words it is an assumption.",
        "note": STD_NOTE + " Conditional claim: match vectors assumed; store-level insertion orders not executed.",
    },
    "C04": {
        "level": "Kernel level, conditional. Solver-decided on real code for words of 5 (quick) and 6 (thorough) letters and every single edit at every "
                 "position: both pre-filters of the matcher accept the edited query, and the weighted distance of the pair is <= 1 and within the 0.21 "
                 "threshold (and is what the matcher reads from the matrix). That word_match then reports a match is a reading of its scan loop, decided by "
                 "the solver only for words up to 3 letters; the composed matcher at >= 4 letters exceeds 40 GB.",
        "note": STD_NOTE + " 'The record is found' is not decided end to end: index, text matcher and the composed word matcher at this length are outside.",
    },
    "C14": {
        "level": "Kernel level, conditional. Solver-decided on real code for |a|+|b| (resp. n) in 3..5: the joined view, both pre-filters, the distance (one "
                 "separator = 0.5, within the threshold) and the split of the resulting match over the two words. That word_match and text_match then report "
                 "the record is a reading of their loops: the composed matcher on >= 4 characters and the text matcher on joined shapes exceed 28-40 GB.",
        "note": STD_NOTE + " 'Is found' is not decided end to end.",
    },
    "C10": {
        "level": "Store level, enumerated histories. Solver-decided on the real Store::add / clear / top_ixs / TrigramIndex::add / prepare: after each of the "
                 "listed operation sequences (quick: hand-picked histories of up to 5 operations; thorough: additionally EVERY sequence of 1-3 operations over "
                 "small operation alphabets, 220 generated histories) the two stateful inputs of Store::search equal those of a freshly built store, for ALL "
                 "ratings and ids. Titles are concrete one/two-letter words.",
        "note": STD_NOTE + " Two genuine defects were found this way and repaired in /repo (f3dba01, ece0e74). Histories are enumerated (thorough: exhaustive "
                           "up to length 3 over small alphabets); records without words and Store::search itself are not executed. Fragile under refactoring: "
                           "code that grows zero-capacity vectors with symbolic elements trips a Kani artefact and the check ends inconclusive (exit 2), never a violation.",
    },
    "C12": {
        "level": "Store level. Solver-decided on the real Store::top_ixs: for 1-3 records with concrete titles (equal titles included) and ALL ratings the empty-query "
                 "candidates are exactly the min(limit, n) best rated, ties broken by title order, and they reflect records added / limits changed after an "
                 "earlier empty-query search (ST-top-current). The final ordering by compare_hits and the absence of markers are glued (CMP-order, EMPTY-score).",
        "note": STD_NOTE + " More than 3 records, limit 0 and separator-only query strings are outside.",
    },
    "C17": {
        "level": "Bounded model checking of the real Jaccard::<char>::similarity / rel_dist / simple_similarity: for every listed pair of "
                 "lengths (up to 3x3 quick, 3x4 and 5x2 thorough) the value equals |A∩B|/|A∪B| for ALL characters, is symmetric, in [0,1], and "
                 "is independent of ARBITRARY earlier contents of the two scratch buffers (shorter, equal, longer).",
        "note": STD_NOTE + " Sequences longer than 3x4 / 5x2 characters (in particular beyond the initial capacity 20) are outside the bound.",
    },
}


NOT_APPLICABLE = {
    "C02": "highlight() builds a String from symbolic chars (UTF-8 width, length and offset all symbolic): symbolic execution did not finish "
           "(DESIGN F11); ids/positions need Store::search, which is not executable within memory (F10/F12)",
    "C11": "needs the per-language compose/reduce tables and Text::normalize end-to-end; Lang::unicode_compose/reduce are not executable "
           "under Kani even on concrete input (memcmp-guarded Option, DESIGN F5) and nothing else installed executes this Rust symbolically",
    "C15": "the tokeniser chain (normalize, split, strip, lower, set_* over Lang maps and Unicode tables) is not executable under Kani (F5/F6)",
    "C20": "the registry API is &str-only and runs the tokeniser on every call; Kani did not finish even with every title and query the empty "
           "string (DESIGN F10)",
}
