#!/bin/sh
# seedeval-par.sh <slot> <patch.diff> <tier> <Cxx>...
# Evaluate a seeded change WITHOUT touching /repo or /verif/.build, so several can run side by side:
# a scratch worktree /tmp/rc<slot> of /repo HEAD carries the patch, a copy /tmp/vc<slot> of /verif (no .build)
# has harness/Cargo.toml and replay/Cargo.toml redirected to it. Seed evaluation only - never evidence.
# Prints "<Cxx> exit=<n>" and the VIOLATION / INCONCLUSIVE lines; removes both scratch dirs afterwards.
SLOT="$1"; PATCH="$2"; TIER="$3"; shift 3
RC=/tmp/rc$SLOT; VC=/tmp/vc$SLOT
git -C /repo worktree remove --force $RC 2>/dev/null; rm -rf $RC $VC
git -C /repo worktree add -q --detach $RC HEAD || exit 9
git -C $RC apply "$PATCH" || { echo "patch does not apply"; git -C /repo worktree remove --force $RC; exit 9; }
rsync -a --exclude .build --exclude .git /verif/ $VC/
sed -i "s#/repo/rust/core#$RC/rust/core#" $VC/harness/Cargo.toml $VC/replay/Cargo.toml
cd $VC
for p in "$@"; do
  VERIF_REPO=$RC VERIF_JOBS=${VERIF_JOBS:-4} python3 bin/vk.py check $p $TIER > $VC/out-$p.log 2>&1
  echo "$p exit=$? $(tail -1 $VC/out-$p.log)"
  grep -E "^VIOLATION|^   lemma|^INCONCLUSIVE|^KNOWN" $VC/out-$p.log | cut -c1-260 | head -8
done
cd /; git -C /repo worktree remove --force $RC; rm -rf $VC; git -C /repo worktree prune
