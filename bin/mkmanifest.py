#!/usr/bin/env python3
"""Regenerates /verif/MANIFEST.json from bin/lemmas.py (claimed properties) and bin/claims.py (texts)."""
import json, os, sys
HERE = os.path.dirname(os.path.abspath(__file__))
sys.path.insert(0, HERE)
import lemmas, claims

checks = []
for pid in sorted(lemmas.PROPS):
    c = claims.CLAIMS[pid]
    checks.append({
        "property_id": pid,
        "quick_cmd": "bin/check %s quick" % pid,
        "thorough_cmd": "bin/check %s thorough" % pid,
        "evidence_file": "/verif/evidence/%s.json" % pid,
        "replay_cmd_template": "bin/check replay {path}",
        "engine": "kani-cbmc",
        "level_claimed": {"category": "model_checking", "text": c["level"], "design_ref": c.get("design", "DESIGN.md §5 " + pid)},
        "level_note": c["note"],
        "technique": c.get("technique", "bounded model checking of the compiled Rust (Kani 0.68 -> CBMC 6.11 + CaDiCaL): "
                                        "symbolic contents, fixed shapes, one SAT query per harness, counterexamples replayed natively"),
    })
na = [{"property_id": p, "reason": r} for p, r in sorted(claims.NOT_APPLICABLE.items()) if p not in lemmas.PROPS]
m = {
    "version": 1,
    "setup_cmd": "bin/setup.sh",
    "hooks": {
        "guard": "lucid_suggest_verif",
        "enable": "RUSTFLAGS='--cfg lucid_suggest_verif' (set by bin/vk.py for cargo kani and for the native replay build)",
        "baseline_off_cmd": "cd /repo/rust/core && cargo test --workspace --no-fail-fast --offline",
        "source_commits": claims.HOOK_COMMITS,
        "add_only": True,
    },
    "engines": [{"name": "kani-cbmc", "path": "/verif/bin/vk.py", "serves_properties": sorted(lemmas.PROPS),
                 "kind_free_text": "cargo kani --only-codegen on /verif/harness (path dependency on /repo/rust/core), goto-cc/"
                                   "goto-instrument link as kani-driver does, CBMC 6.11 + CaDiCaL per harness instance, native replay "
                                   "of counterexamples (/verif/replay)"}],
    "checks": checks,
    "not_applicable": na,
    "notes": "See DESIGN.md. Exit 2 = inconclusive (undecided instance, vacuous harness, counterexample that does not replay).",
}
json.dump(m, open(os.path.join(os.path.dirname(HERE), "MANIFEST.json"), "w"), indent=1)
print("MANIFEST.json: %d checks, %d not applicable" % (len(checks), len(na)))
