#!/usr/bin/env python3
"""vk - driver for the solver-based checks of lucid-suggest (see /verif/DESIGN.md).

  vk.py check <Cxx> [quick|thorough]     run the registered lemmas of one property
  vk.py run <name-regex> [...]           run arbitrary harness instances (development)
  vk.py replay <file>                    re-run a stored counterexample natively
  vk.py baseline                         repository test-suite with the hook guard OFF

Pipeline per check (everything is regenerated from /repo's working tree on every run):
  1. `cargo kani --only-codegen` compiles /repo/rust/core (path dependency, hooks on) and the
     selected proof harnesses to GOTO programs;
  2. goto-cc / goto-instrument link each harness exactly as kani-driver does;
  3. CBMC decides each harness: ONE query for the conjunction of all assertions (harness
     assertions, Rust overflow/bounds/unwrap panics, pointer checks, unwinding assertions), then
     one query per `witness!` (must be satisfiable: non-vacuity);
  4. a counterexample is turned into concrete values (the harness logs every symbolic value in
     ND_LOG), replayed natively against the real crate in the dev and the release profile, and
     only then reported.
Exit status: 0 property held on everything explored; 1 VIOLATION (replayed); 2 inconclusive
(undecided instance, vacuous harness, counterexample that does not replay, tool failure).
"""
import concurrent.futures as cf
import fcntl
import hashlib
import json
import os
import random
import re
import resource
import shutil
import subprocess
import sys
import time

VERIF = os.path.dirname(os.path.dirname(os.path.abspath(__file__)))
REPO = os.environ.get("VERIF_REPO", "/repo")
CORE = os.path.join(REPO, "rust/core")
BUILD = os.path.join(VERIF, ".build")
KANI_TARGET = os.path.join(BUILD, "kani")
REPLAY_TARGET = os.path.join(BUILD, "replay")
HARNESS = os.path.join(VERIF, "harness")
REPLAY = os.path.join(VERIF, "replay")
KANI_HOME = os.path.expanduser("~/.kani/kani-0.68.0")
KANI_LIB_C = os.path.join(KANI_HOME, "library/kani/kani_lib.c")
GUARD = "--cfg lucid_suggest_verif"

CBMC_BASE = [
    "cbmc", "--no-malloc-may-fail", "--no-undefined-shift-check", "--no-signed-overflow-check",
    "--nan-check", "--no-self-loops-to-assumptions", "--no-pointer-primitive-check",
    "--object-bits", "16", "--sat-solver", "cadical", "--slice-formula",
]
# byte-wise comparison of small arrays / slices ([char; 3] grams, short char slices)
DEFAULT_UNWINDSET = [(r"^memcmp", 14), (r"DistMatrix::init", 12), (r"Zip<std::slice::Iter<'_, isize>", 11)]
NOISE = ("Not unwinding", "aborting path", "Unwinding loop", "Unwinding recursion")


def env_for_cargo():
    e = dict(os.environ)
    e["CARGO_NET_OFFLINE"] = "true"
    e["RUSTFLAGS"] = GUARD
    e.pop("RUSTUP_TOOLCHAIN", None)
    return e


def log(msg):
    print(msg, flush=True)


# ------------------------------------------------------------------------------------------
# build
# ------------------------------------------------------------------------------------------

def sync_lock(dirpath):
    """Harness crates resolve offline against the repository's own lock file."""
    src = os.path.join(CORE, "Cargo.lock")
    dst = os.path.join(dirpath, "Cargo.lock")
    if not os.path.exists(dst) and os.path.exists(src):
        shutil.copy(src, dst)


def codegen(filters, workdir):
    """Compile the selected harnesses; return {pretty_name: {...metadata, 'symtab': path}}.
    Serialised by a lock: the cargo target dir is shared between concurrently running checks."""
    os.makedirs(KANI_TARGET, exist_ok=True)
    sync_lock(HARNESS)
    lock = open(os.path.join(BUILD, "codegen.lock"), "w")
    fcntl.flock(lock, fcntl.LOCK_EX)
    try:
        t0 = time.time()
        cmd = ["cargo", "kani", "-Z", "stubbing", "--only-codegen", "--no-assertion-reach-checks",
               "--target-dir", KANI_TARGET]
        for f in filters:
            cmd += ["--harness", f]
        p = subprocess.run(cmd, cwd=HARNESS, env=env_for_cargo(), capture_output=True, text=True)
        with open(os.path.join(workdir, "codegen.log"), "w") as f:
            f.write(p.stdout + p.stderr)
        if p.returncode != 0:
            errs = [l for l in (p.stdout + p.stderr).splitlines() if l.startswith("error")]
            raise RuntimeError("codegen failed: " + "; ".join(errs[:5]) + " (see %s/codegen.log)" % workdir)
        outroot = os.path.join(KANI_TARGET, "kani/x86_64-unknown-linux-gnu/debug/build/lsv")
        metas = []
        for d in os.listdir(outroot):
            out = os.path.join(outroot, d, "out")
            if os.path.isdir(out):
                for f in os.listdir(out):
                    if f.endswith(".kani-metadata.json"):
                        metas.append(os.path.join(out, f))
        metas.sort(key=os.path.getmtime)
        meta = json.load(open(metas[-1]))
        res = {}
        for h in meta["proof_harnesses"]:
            short = h["pretty_name"].split("::")[-1]
            sym = h["goto_file"]
            if not os.path.exists(sym):
                continue
            dst = os.path.join(workdir, short + ".symtab.out")
            shutil.copy(sym, dst)
            res[short] = {"pretty": h["pretty_name"], "mangled": h["mangled_name"], "symtab": dst,
                          "unwind": h["attributes"].get("unwind_value"),
                          "stubs": [s["original"] + " -> " + s["replacement"] for s in h["attributes"].get("stubs", [])]}
        # bound the disk use: drop every output directory but the newest
        newest = os.path.dirname(os.path.dirname(metas[-1]))
        for d in os.listdir(outroot):
            full = os.path.join(outroot, d)
            if full != newest:
                shutil.rmtree(full, ignore_errors=True)
        return res, time.time() - t0
    finally:
        fcntl.flock(lock, fcntl.LOCK_UN)
        lock.close()


def link(h):
    """The goto-cc / goto-instrument sequence of kani-driver 0.68."""
    out = h["symtab"].replace(".symtab.out", ".out")
    steps = [
        ["goto-cc", h["symtab"], KANI_LIB_C, "-o", out],
        ["goto-cc", out, "--function", h["mangled"], "-o", out],
        ["goto-instrument", "--add-library", "--no-malloc-may-fail", out, out],
        ["goto-instrument", "--generate-function-body-options", "assert-false-assume-false",
         "--generate-function-body", ".*", "--drop-unused-functions", out, out],
        ["goto-instrument", "--ensure-one-backedge-per-target", out, out],
    ]
    for s in steps:
        p = subprocess.run(s, capture_output=True, text=True)
        if p.returncode != 0:
            raise RuntimeError("link step failed: %s\n%s" % (" ".join(s[:3]), (p.stdout + p.stderr)[-2000:]))
    os.remove(h["symtab"])
    h["goto"] = out
    return out


# ------------------------------------------------------------------------------------------
# CBMC
# ------------------------------------------------------------------------------------------

def limit_mem(gb):
    def f():
        lim = int(gb * 1024 ** 3)
        resource.setrlimit(resource.RLIMIT_AS, (lim, lim))
        os.setsid()
    return f


def run_cbmc(args, timeout, mem_gb, slice_formula=True):
    t0 = time.time()
    base = CBMC_BASE if slice_formula else [a for a in CBMC_BASE if a != "--slice-formula"]
    try:
        p = subprocess.Popen(base + args, stdout=subprocess.PIPE, stderr=subprocess.STDOUT, text=True,
                             preexec_fn=limit_mem(mem_gb))
        try:
            out, _ = p.communicate(timeout=timeout)
        except subprocess.TimeoutExpired:
            try:
                os.killpg(p.pid, 9)
            except Exception:
                p.kill()
            p.communicate()
            return "TIMEOUT", "", time.time() - t0
    except Exception as e:  # pragma: no cover
        return "ERROR", str(e), time.time() - t0
    dt = time.time() - t0
    lines = [l for l in out.splitlines() if not l.startswith(NOISE)]
    text = "\n".join(lines)
    if "VERIFICATION SUCCESSFUL" in text:
        return "SUCCESS", text, dt
    if "VERIFICATION FAILED" in text:
        return "FAILED", text, dt
    if "out of memory" in text or "Out of memory" in text or "bad_alloc" in text or p.returncode in (-9, 137, -6, 134):
        return "OOM", text[-3000:], dt
    return "ERROR", text[-3000:], dt


def list_properties(goto, unwind):
    p = subprocess.run(CBMC_BASE[:-3] + ["--unwind", str(unwind), goto, "--show-properties", "--json-ui"],
                       capture_output=True, text=True)
    data = json.loads(p.stdout)
    for x in data:
        if isinstance(x, dict) and "properties" in x:
            return x["properties"]
    return []


def list_loops(goto):
    p = subprocess.run(["cbmc", goto, "--show-loops"], capture_output=True, text=True)
    loops = []
    cur = None
    for l in p.stdout.splitlines():
        m = re.match(r"Loop (\S+):", l)
        if m:
            cur = m.group(1)
            continue
        if cur and "function" in l:
            fn = l.split("function", 1)[1].strip()
            loops.append((cur, fn))
            cur = None
    return loops


VIOL_RE = re.compile(r"Violated property:\n\s+(.*)\n\s+(.*)\n", re.M)
NDLOG_RE = re.compile(r"ND_LOG\[(\d+)l?\]=(\d+)")
STAT_RE = re.compile(r"(\d+) variables, (\d+) clauses")


def parse_failure(text):
    m = VIOL_RE.search(text)
    where, what = (m.group(1), m.group(2)) if m else ("?", "?")
    vals = {}
    seq = 0
    for line in text.splitlines():
        if "ND_LOG[" not in line or "]=" not in line:
            continue
        m = re.search(r"ND_LOG\[(.*)\]=(\d+)", line)
        if not m:
            continue
        inner, v = m.group(1), int(m.group(2))
        mi = re.fullmatch(r"\s*(\d+)u?l?\s*", inner) or re.search(r"/\*\s*(\d+)u?l?\s*\*/", inner)
        idx = int(mi.group(1)) if mi else seq
        vals[idx] = v
        seq = idx + 1
    n = max(vals) + 1 if vals else 0
    values = [vals.get(i, 0) for i in range(n)]
    return {"location": where, "description": what.strip(), "values": values}


def encoded_functions(goto):
    """Names of the repository functions that are part of the GOTO program handed to the solver."""
    p = subprocess.run(["cbmc", goto, "--list-goto-functions"], capture_output=True, text=True)
    names = set()
    for l in p.stdout.splitlines():
        if "lucid_suggest_core" in l and "{closure" not in l:
            l = l.strip()
            m = re.search(r"(lucid_suggest_core::[A-Za-z0-9_:<>, ]+)", l)
            if m:
                names.add(m.group(1).strip())
    return sorted(names)


def decide(name, h, opts):
    """All solver work for one harness instance. Returns a result dict."""
    unwind = opts.get("unwind") or h.get("unwind") or 8
    timeout = opts.get("timeout", 900)
    mem = float(opts.get("mem_gb", 14))
    res = {"instance": name, "unwind": unwind, "stubs": h["stubs"], "queries": 0, "solver_s": 0.0}
    try:
        goto = h.get("goto") or link(h)
    except Exception as e:
        res.update(status="ERROR", detail=str(e))
        return res
    extra = ["--unwind", str(unwind)]
    uset = []
    rules = list(opts.get("unwindset") or []) + DEFAULT_UNWINDSET
    if rules:
        loops = list_loops(goto)
        for lid, fn in loops:
            for rx, n in rules:
                if re.search(rx, fn) or re.search(rx, lid):
                    uset.append("%s:%d" % (lid, n))
                    break
        if uset:
            extra += ["--unwindset", ",".join(uset)]
    res["unwindset"] = uset
    props = list_properties(goto, unwind)
    covers = [p for p in props if p["class"] == "cover"]
    asserts = [p for p in props if p["class"] != "cover"]
    # Kani's model of __rust_dealloc asserts that the size passed equals the size CBMC recorded for
    # the object; for vectors whose capacity is a symbolic if-then-else this is not provable and is
    # reported on every path (model artefact, DESIGN F9). Safe Rust cannot pass a wrong layout and
    # the library's only unsafe code is get_unchecked, so these model assertions are not selected.
    # Likewise the memcpy precondition inside Kani's __rust_realloc model (kani_lib.c) fires for
    # vectors that grow from a one-element boxed slice (`vec![x]` then `push`); natively the
    # reallocation is fine (Miri-clean in the repository's own tests).
    asserts = [p for p in asserts if p.get("sourceLocation", {}).get("function", "") not in ("__rust_dealloc", "__rust_realloc")]
    if opts.get("checks") == "functional":
        # only panics/assertions of Rust code and unwinding assertions; pointer-level checks are
        # the subject of the C19 harnesses
        asserts = [p for p in asserts if p["class"] in ("assertion", "unreachable", "unsupported_construct",
                                                       "arithmetic_overflow", "division-by-zero", "array bounds")]
    res["n_properties"] = len(asserts)
    res["n_covers"] = len(covers)
    sel = []
    for p in asserts:
        sel += ["--property", p["name"]]
    st, text, dt = run_cbmc(extra + sel + [goto, "--stop-on-fail", "--trace", "--verbosity", "8"], timeout, mem)
    res["queries"] += 1
    res["solver_s"] += dt
    m = STAT_RE.findall(text)
    if m:
        res["sat_vars"], res["sat_clauses"] = int(m[-1][0]), int(m[-1][1])
    res["status"] = st
    if st == "FAILED":
        cex = parse_failure(text)
        if cex["description"].startswith("unwinding assertion") or "recursion unwinding" in cex["description"]:
            # the stated bound is too small for this tree: never a verdict
            res["status"] = st = "UNWIND"
            res["detail"] = "unwinding bound too small: %s" % cex["location"]
        else:
            # formula slicing drops the ND_LOG writes from the trace: get the values from an unsliced run
            # select only the violated property (matched by description / function / line) so that the
            # unsliced formula stays as small as possible; allow it twice the memory
            only = []
            for p in asserts:
                loc = p.get("sourceLocation", {})
                if p.get("description", "").strip('"') == cex["description"].strip('"') \
                        and ("function %s " % loc.get("function", "?")) in (cex["location"] + " ") \
                        and ("line %s " % loc.get("line", "?")) in (cex["location"] + " "):
                    only += ["--property", p["name"]]
            base = [a for a in extra + (only or sel) + [goto, "--stop-on-fail", "--trace"]]
            st2, text2, dt2 = run_cbmc(base, timeout, min(2 * mem, 48.0), slice_formula=False)
            res["queries"] += 1
            res["solver_s"] += dt2
            if st2 == "FAILED":
                cex = parse_failure(text2)
                text = text2
            res["cex"] = cex
            if os.environ.get("VERIF_KEEP"):
                with open(goto.replace(".out", ".trace.txt"), "w") as f:
                    f.write(text)
    elif st != "SUCCESS":
        res["detail"] = text[-1500:]
    # non-vacuity witnesses
    res["witness"] = []
    if st in ("SUCCESS", "FAILED"):
        for c in covers:
            cst, ctext, cdt = run_cbmc(extra + ["--property", c["name"], goto, "--stop-on-fail"],
                                        max(60, timeout // 2), mem)
            res["queries"] += 1
            res["solver_s"] += cdt
            res["witness"].append({"what": c["description"], "satisfiable": cst == "FAILED",
                                   "status": cst})
    if opts.get("list_functions"):
        res["functions"] = encoded_functions(goto)
    if not os.environ.get("VERIF_KEEP"):
        try:
            os.remove(goto)
        except OSError:
            pass
    return res


# ------------------------------------------------------------------------------------------
# replay
# ------------------------------------------------------------------------------------------

_replay_built = {}


def build_replay():
    if _replay_built:
        return _replay_built
    sync_lock(REPLAY)
    lock = open(os.path.join(BUILD, "replay.lock"), "w")
    fcntl.flock(lock, fcntl.LOCK_EX)
    try:
        for prof, flag in (("debug", []), ("release", ["--release"])):
            p = subprocess.run(["cargo", "build", "--offline", "--target-dir", REPLAY_TARGET] + flag,
                               cwd=REPLAY, env=env_for_cargo(), capture_output=True, text=True)
            if p.returncode != 0:
                raise RuntimeError("replay build failed:\n" + p.stderr[-3000:])
            src = os.path.join(REPLAY_TARGET, prof, "replay")
            dst = os.path.join(BUILD, "replay-%s-%d" % (prof, os.getpid()))
            shutil.copy(src, dst)
            _replay_built[prof] = dst
    finally:
        fcntl.flock(lock, fcntl.LOCK_UN)
        lock.close()
    return _replay_built


def replay(instance, values):
    """Run the counterexample natively. -> (reproduces, details)"""
    bins = build_replay()
    det = {}
    repro = False
    for prof, exe in bins.items():
        try:
            p = subprocess.run([exe, instance, ",".join(str(v) for v in values)], capture_output=True,
                               text=True, timeout=120, env=dict(os.environ, RUST_BACKTRACE="0"))
            rc, out = p.returncode, (p.stdout + p.stderr)[-1500:]
        except subprocess.TimeoutExpired:
            rc, out = "timeout", "native run did not finish in 120 s (hang)"
        det[prof] = {"exit": rc, "output": out}
        if rc not in (0, 3, 2):
            repro = True
    return repro, det


def cleanup_replay_bins():
    for exe in _replay_built.values():
        try:
            os.remove(exe)
        except OSError:
            pass


# ------------------------------------------------------------------------------------------
# known findings
# ------------------------------------------------------------------------------------------

def load_known():
    """known-findings.txt lines:
         finding: property=<id> lemma=<lemma> match=<regex on 'instance | description | native output'> :: text
         fixed: property=<id> <commit> <what failed>          (suppresses nothing)"""
    known = []
    path = os.path.join(VERIF, "known-findings.txt")
    if not os.path.exists(path):
        return known
    for line in open(path):
        line = line.strip()
        if not line.startswith("finding:"):
            continue
        m = re.match(r"finding:\s+property=(\S+)\s+lemma=(\S+)\s+match=(.*?)\s+::\s+(.*)", line)
        if m:
            known.append({"property": m.group(1), "lemma": m.group(2), "match": m.group(3), "text": m.group(4)})
    return known


# ------------------------------------------------------------------------------------------
# check
# ------------------------------------------------------------------------------------------

def run_instances(items, workdir, jobs):
    """items: list of (name, opts). Returns list of result dicts (same order)."""
    names = sorted(set(n for n, _ in items))
    hs, cg_s = codegen(["::" + n if False else n for n in names], workdir)
    missing = [n for n in names if n not in hs]
    if missing:
        raise RuntimeError("harness instances not found after codegen: %s" % missing)
    results = {}
    # memory-aware scheduling: an instance only starts when its declared limit fits the budget
    import threading
    budget = float(os.environ.get("VERIF_MEM_GB", "56"))
    cond = threading.Condition()
    state = {"avail": budget}

    def guarded(n, h, o):
        lim = float(o.get("mem_gb", 14))
        # instances with the default limit typically use 1-3 GB: weigh them 4; heavy ones weigh their limit
        need = min(float(o.get("sched_gb", 4 if lim <= 14 else lim)), budget)
        with cond:
            while state["avail"] < need:
                cond.wait()
            state["avail"] -= need
        try:
            return decide(n, h, o)
        finally:
            with cond:
                state["avail"] += need
                cond.notify_all()

    # heavy instances first so that they do not end up queued behind everything else
    order = sorted(items, key=lambda it: -float(it[1].get("mem_gb", 14)))
    with cf.ThreadPoolExecutor(max_workers=jobs) as ex:
        futs = {ex.submit(guarded, n, dict(hs[n]), o): n for n, o in order}
        for f in cf.as_completed(futs):
            n = futs[f]
            try:
                r = f.result()
            except Exception as e:
                r = {"instance": n, "status": "ERROR", "detail": repr(e), "queries": 0, "solver_s": 0.0,
                     "witness": []}
            results[n] = r
            w = r.get("witness", [])
            log("  [%s] %-34s %6.1fs  vars=%s  witnesses=%d/%d" % (
                r["status"], n, r.get("solver_s", 0), r.get("sat_vars", "-"),
                sum(1 for x in w if x["satisfiable"]), len(w)))
    return [results[n] for n, _ in items], cg_s


def cmd_check(prop, tier):
    sys.path.insert(0, os.path.join(VERIF, "bin"))
    import lemmas
    t0 = time.time()
    seed = int(os.environ.get("VERIF_SEED", "0"))
    tier = os.environ.get("VERIF_TIER", tier)
    spec = lemmas.PROPS[prop]
    workdir = os.path.join(BUILD, "work", "%s-%s-%d" % (prop, tier, os.getpid()))
    shutil.rmtree(workdir, ignore_errors=True)
    os.makedirs(workdir)
    jobs = int(os.environ.get("VERIF_JOBS", "12"))
    items = []
    lemma_of = {}
    for lem in spec["lemmas"]:
        insts = list(lem.get("quick", []))
        if tier == "thorough":
            insts += [i for i in lem.get("thorough", []) if i not in insts]
        for i in insts:
            o = dict(lem.get("opts", {}))
            o.update(lem.get("per_instance", {}).get(i, {}))
            if i not in lemma_of:
                items.append((i, o))
                lemma_of[i] = lem
    random.Random(seed).shuffle(items)
    # one representative instance per lemma reports the repository functions in its GOTO program
    seen = set()
    for n, o in items:
        if lemma_of[n]["id"] not in seen:
            o["list_functions"] = True
            seen.add(lemma_of[n]["id"])
    log("== %s (%s): %d harness instances, %d lemmas, seed %d" % (prop, tier, len(items), len(spec["lemmas"]), seed))
    violations, known_hits, inconclusive = [], [], []
    results = []
    try:
        results, cg_s = run_instances(items, workdir, jobs)
    except Exception as e:
        log("ERROR: %s" % e)
        inconclusive.append({"instance": "*", "why": str(e)})
        cg_s = 0.0
    known = load_known()
    replays = 0
    for r in results:
        lem = lemma_of[r["instance"]]
        r["lemma"] = lem["id"]
        if r["status"] == "FAILED":
            cex = r["cex"]
            repro, det = replay(r["instance"], cex["values"])
            replays += 1
            r["replay"] = {"reproduces": repro, "native": det}
            blob = "%s | %s | %s" % (r["instance"], cex["description"],
                                     " ".join(str(d["output"]) for d in det.values()))
            if not repro:
                inconclusive.append({"instance": r["instance"],
                                     "why": "solver counterexample does not reproduce natively: %s at %s" % (
                                         cex["description"], cex["location"])})
                continue
            hit = None
            for k in known:
                if k["property"] == prop and k["lemma"] == lem["id"] and re.search(k["match"], blob):
                    hit = k
                    break
            if hit:
                known_hits.append((hit, r))
            else:
                os.makedirs(os.path.join(VERIF, "replays"), exist_ok=True)
                hsh = hashlib.sha1(json.dumps(cex["values"]).encode()).hexdigest()[:10]
                path = os.path.join(VERIF, "replays", "%s-%s-%s.json" % (prop, r["instance"], hsh))
                json.dump({"property": prop, "lemma": lem["id"], "lemma_text": lem["text"],
                           "instance": r["instance"], "values": cex["values"],
                           "failed_assertion": cex["description"], "location": cex["location"],
                           "native": det}, open(path, "w"), indent=1)
                violations.append((path, r))
        elif r["status"] != "SUCCESS":
            inconclusive.append({"instance": r["instance"], "why": "%s: %s" % (r["status"], r.get("detail", "")[-300:])})
        for w in r.get("witness", []):
            if not w["satisfiable"]:
                inconclusive.append({"instance": r["instance"],
                                     "why": "vacuous: witness '%s' is %s" % (w["what"], w["status"])})
    cleanup_replay_bins()
    shutil.rmtree(workdir, ignore_errors=True)
    # ---- evidence
    decided = [r for r in results if r["status"] == "SUCCESS"]
    nontrivial = [r for r in decided if r.get("witness") and all(w["satisfiable"] for w in r["witness"])]
    functions = sorted(set(f for r in results for f in r.get("functions", [])))
    ev = {
        "property_id": prop,
        "tier": tier,
        "seed": seed,
        "level": "model_checking",
        "coverage": {
            "evaluations": sum(r.get("queries", 0) for r in results),
            "distinct_nontrivial": len(nontrivial),
            "rule": "one evaluation = one CBMC/CaDiCaL query over ALL symbolic contents of one harness instance "
                    "(fixed shape, see 'bounds'); an instance counts as distinct+non-trivial when its main query "
                    "was decided UNSAT (all assertions hold) and every witness (reachability / interesting-case "
                    "cover) of that instance was decided SAT",
            "samples": [{"instance": r["instance"], "lemma": r["lemma"], "status": r["status"],
                         "unwind": r.get("unwind"), "sat_vars": r.get("sat_vars"),
                         "witness": r.get("witness")} for r in results[:6]],
            "exhaustive": False,
            "engine": "Kani 0.68.0 codegen -> goto-cc/goto-instrument -> CBMC 6.11.0 + CaDiCaL",
            "encoding_regenerated_from": CORE,
            "functions_encoded": functions,
            "lemmas": [{"id": l["id"], "statement": l["text"], "bounds": l.get("bounds", ""),
                        "instances": [r["instance"] for r in results if r["lemma"] == l["id"]],
                        "proved": [r["instance"] for r in results if r["lemma"] == l["id"] and r["status"] == "SUCCESS"]}
                       for l in spec["lemmas"]],
            "instances": [{k: r.get(k) for k in ("instance", "lemma", "status", "unwind", "unwindset", "stubs",
                                                  "n_properties", "n_covers", "queries", "solver_s", "sat_vars",
                                                  "sat_clauses", "witness")} for r in results],
            "queries_discharged": sum(r.get("queries", 0) for r in results),
            "cbmc_properties_checked": sum(r.get("n_properties", 0) for r in results),
            "solver_wall_s": round(sum(r.get("solver_s", 0.0) for r in results), 1),
            "codegen_s": round(cg_s, 1),
            "undecided": inconclusive,
            "counterexamples_replayed": replays,
            "known_findings_hit": [k["text"] for k, _ in known_hits],
            "outside_bounds": spec.get("outside", ""),
        },
        "assumptions": spec.get("assumptions", []) + lemmas.COMMON_ASSUMPTIONS,
        "wall_s": round(time.time() - t0, 1),
        "violations": len(violations),
    }
    os.makedirs(os.path.join(VERIF, "evidence"), exist_ok=True)
    json.dump(ev, open(os.path.join(VERIF, "evidence", prop + ".json"), "w"), indent=1)
    for k, r in known_hits:
        log("KNOWN-FINDING: property=%s %s [%s: %s]" % (prop, k["text"], r["instance"], r["cex"]["description"]))
    for path, r in violations:
        log("VIOLATION property=%s replay=%s" % (prop, path))
        log("   lemma %s, instance %s: %s (%s)" % (r["lemma"], r["instance"], r["cex"]["description"], r["cex"]["location"]))
    for i in inconclusive:
        log("INCONCLUSIVE %s: %s" % (i["instance"], i["why"]))
    log("== %s %s: %d/%d instances proved, %d violations, %d known, %d inconclusive, %.0fs" % (
        prop, tier, len(decided), len(results), len(violations), len(known_hits), len(inconclusive), time.time() - t0))
    if violations:
        return 1
    if inconclusive:
        return 2
    return 0


def cmd_run(patterns, opts):
    """development helper: run instances whose names match, print results"""
    workdir = os.path.join(BUILD, "work", "run-%d" % os.getpid())
    shutil.rmtree(workdir, ignore_errors=True)
    os.makedirs(workdir)
    items = [(p, dict(opts)) for p in patterns]
    results, cg = run_instances(items, workdir, int(os.environ.get("VERIF_JOBS", "12")))
    for r in results:
        if r["status"] == "FAILED":
            log("  CEX %s: %s @ %s values=%s" % (r["instance"], r["cex"]["description"], r["cex"]["location"], r["cex"]["values"]))
            if opts.get("replay", True):
                repro, det = replay(r["instance"], r["cex"]["values"])
                log("  replay reproduces=%s %s" % (repro, {k: (v["exit"], v["output"][-300:]) for k, v in det.items()}))
        elif r["status"] != "SUCCESS":
            log("  %s detail: %s" % (r["instance"], r.get("detail", "")[-600:]))
        for w in r.get("witness", []):
            if not w["satisfiable"]:
                log("  VACUOUS %s: %s" % (r["instance"], w))
    cleanup_replay_bins()
    if not os.environ.get("VERIF_KEEP"):
        shutil.rmtree(workdir, ignore_errors=True)
    return 0


def cmd_replay(path):
    d = json.load(open(path))
    repro, det = replay(d["instance"], d["values"])
    cleanup_replay_bins()
    log("replay of %s (%s / %s): %s" % (path, d["property"], d["lemma"], "REPRODUCES" if repro else "does not reproduce"))
    for prof, x in det.items():
        log("--- %s profile: exit %s\n%s" % (prof, x["exit"], x["output"]))
    return 1 if repro else 0


def cmd_baseline():
    p = subprocess.run("cargo test --workspace --no-fail-fast --offline 2>&1 | grep -E '^test result|^test .* FAILED'",
                       shell=True, cwd=CORE, capture_output=True, text=True)
    log(p.stdout)
    passed = sum(int(m) for m in re.findall(r"(\d+) passed", p.stdout))
    log("passed=%d (baseline 219)" % passed)
    return 0 if passed >= 219 else 1


def main():
    a = sys.argv[1:]
    if not a:
        print(__doc__)
        return 2
    os.makedirs(BUILD, exist_ok=True)
    if a[0] == "check":
        return cmd_check(a[1], a[2] if len(a) > 2 else "quick")
    if a[0] == "run":
        opts = {}
        pats = []
        for x in a[1:]:
            if "=" in x:
                k, v = x.split("=", 1)
                opts[k] = int(v) if v.isdigit() else v
            else:
                pats.append(x)
        return cmd_run(pats, opts)
    if a[0] == "replay":
        return cmd_replay(a[1])
    if a[0] == "baseline":
        return cmd_baseline()
    print(__doc__)
    return 2


if __name__ == "__main__":
    sys.exit(main())
