#!/bin/sh
# runall.sh [quick|thorough]: every registered check in sequence; one summary line each.
cd "$(dirname "$0")/.."
TIER="${1:-quick}"
for p in $(python3 -c "import json;print(' '.join(c['property_id'] for c in json.load(open('MANIFEST.json'))['checks']))"); do
  python3 bin/vk.py check $p $TIER > .build/check-$p-$TIER.log 2>&1
  echo "$p exit=$? $(tail -1 .build/check-$p-$TIER.log)"
done
