"""Registered lemmas: which harness instances decide which property (see DESIGN.md §5).
Each lemma: id, text (what the solver decides), bounds, quick / thorough instance lists, opts."""

COMMON_ASSUMPTIONS = [
    "Kani 0.68 / CBMC 6.11 semantics of MIR and their models of the allocator (allocation never fails)",
    "single thread (the crate's scratch state is thread-local; WASM is single-threaded)",
    "S1: fnv::FnvHashMap replaced by an association-list map with the same finite-map semantics",
    "H1: thread_local! replaced by a lazily initialised leaked static (cfg lucid_suggest_verif)",
]

def grid(prefix, pairs):
    return ["%s_%s" % (prefix, "_".join(str(x) for x in p)) for p in pairs]

PROPS = {}

PROPS["C17"] = {
    "assumptions": ["T1: <[char]>::sort_unstable replaced by insertion sort (std's documented contract)"],
    "outside": "sequences longer than 5 characters (in particular beyond the initial buffer capacity 20); "
               "pre-state buffer lengths other than those enumerated",
    "lemmas": [
        {"id": "JAC-set", "text": "Jaccard::<char>::similarity(a,b) on a fresh instance == |A∩B|/|A∪B| (1 for two empty "
                                  "sequences) and lies in [0,1], for ALL contents of the given lengths",
         "bounds": "lengths (la,lb) listed in the instance names, every char any Unicode scalar value; loop unwinding 8",
         "opts": {"unwind": 8, "timeout": 900},
         "quick": grid("jac_fresh", [(0,0),(0,2),(2,0),(1,1),(1,2),(2,2),(2,3),(3,2),(3,3)]),
         "thorough": grid("jac_fresh", [(1,4),(4,1),(3,4),(4,3),(4,4),(2,5),(5,2),(4,5),(5,4),(5,5)])},
        {"id": "JAC-sym", "text": "rel_dist(b,a) == 1 - similarity(a,b) on independent instances (symmetry)",
         "bounds": "lengths as listed", "opts": {"unwind": 8, "timeout": 900},
         "quick": grid("jac_sym", [(2,2),(3,2),(0,3)]), "thorough": grid("jac_sym", [(3,4)])},
        {"id": "JAC-hist", "text": "history independence: with ARBITRARY previous contents of both scratch buffers "
                                   "(lengths p1,p2 shorter, equal, longer than needed) the value is the set similarity",
         "bounds": "(la,lb,p1,p2) as listed", "opts": {"unwind": 8, "timeout": 900},
         "quick": grid("jac_hist", [(2,2,0,3),(2,3,1,5),(3,2,3,2)]),
         "thorough": grid("jac_hist", [(3,3,5,1),(4,4,6,1),(4,3,1,6)])},
        {"id": "JAC-merge", "text": "simple_similarity on strictly increasing inputs == |A∩B|/|A∪B|",
         "bounds": "lengths as listed", "opts": {"unwind": 8, "timeout": 900},
         "quick": grid("jac_simple", [(0,3),(3,3),(2,4)]), "thorough": grid("jac_simple", [(4,4),(5,5),(6,6)])},
    ],
}

DL_UNWINDSET = [(r"DistMatrix::init", 24), (r"Vec::<f64>::extend_with", 70)]

PROPS["C16"] = {
    "assumptions": ["words are built directly as WordView values (the tokeniser is not executed, DESIGN F5)"],
    "outside": "words longer than 4 characters (5x2 in the thorough tier); matrices grown beyond 7x7; "
               "'several times the capacity' is only covered through the arbitrary-pre-state lemma DL-hist",
    "lemmas": [
        {"id": "DL-laws", "text": "on a fresh DamerauLevenshtein of the given capacity: distance == 0 iff the words are equal; "
                                  "distance >= 0 and 2*distance is an integer; distance <= plain Levenshtein; "
                                  "2*distance >= unrestricted Damerau-Levenshtein (both references computed in the harness on the "
                                  "same symbolic words)",
         "bounds": "(n1,n2,capacity) from the instance names; every char any Unicode scalar, every class any of the 8 classes; unwind 8 "
                   "(init loop 24, resize 70)",
         "opts": {"unwind": 8, "timeout": 1500, "unwindset": DL_UNWINDSET},
         "quick": ["dl_laws_0_0_20", "dl_laws_0_2_20", "dl_laws_1_1_20", "dl_laws_1_2_20", "dl_laws_2_1_20", "dl_laws_2_2_2",
                   "dl_laws_2_3_3", "dl_laws_3_2_3", "dl_laws_3_1_1", "dl_laws_3_3_3"],
         "thorough": ["dl_laws_2_2_20", "dl_laws_3_3_20", "dl_laws_3_4_4", "dl_laws_4_3_4", "dl_laws_4_4_4", "dl_laws_2_5_5",
                      "dl_laws_5_2_5", "dl_laws_2_4_1"]},
        {"id": "DL-sym", "text": "distance(a,b) == distance(b,a), second call on the same instance",
         "bounds": "(n1,n2,capacity) as listed", "opts": {"unwind": 8, "timeout": 1500, "unwindset": DL_UNWINDSET},
         "quick": ["dl_sym_1_2_2", "dl_sym_2_2_2", "dl_sym_2_3_3", "dl_sym_2_3_1"], "thorough": ["dl_sym_3_3_3", "dl_sym_3_4_4"]},
        {"id": "DL-discount", "text": "distance with arbitrary character classes <= distance of the same characters with all classes Consonant",
         "bounds": "(n1,n2,capacity) as listed", "opts": {"unwind": 8, "timeout": 1500, "unwindset": DL_UNWINDSET},
         "quick": ["dl_disc_2_2_2", "dl_disc_2_3_3"], "thorough": ["dl_disc_3_3_3", "dl_disc_3_4_4"]},
        {"id": "DL-hist", "text": "history independence: starting from ANY matrix of dimension S satisfying the representation invariant "
                                  "(sentinel row/column = S, origin 0, every other cell an arbitrary float) the result equals that of a "
                                  "fresh instance; S smaller than needed exercises growth",
         "bounds": "(n1,n2,S) as listed", "opts": {"unwind": 8, "timeout": 1500, "unwindset": DL_UNWINDSET},
         "quick": ["dl_hist_2_2_2", "dl_hist_2_2_4", "dl_hist_2_2_6", "dl_hist_3_2_3", "dl_hist_1_3_4"],
         "thorough": ["dl_hist_2_3_5", "dl_hist_3_3_2", "dl_hist_3_3_5", "dl_hist_3_3_7", "dl_hist_4_3_3"]},
        {"id": "DL-inv", "text": "the representation invariant assumed by DL-hist is re-established by every call (and the matrix is "
                                 "at least (n+2)x(n+2) with a flat buffer of size^2)",
         "bounds": "(n1,n2,S) as listed", "opts": {"unwind": 8, "timeout": 1500, "unwindset": DL_UNWINDSET},
         "quick": ["dl_inv_2_2_2", "dl_inv_0_2_3", "dl_inv_2_3_5"], "thorough": ["dl_inv_3_1_6", "dl_inv_3_3_4"]},
        {"id": "DL-prefix", "text": "after distance(a,b) the matrix cell for the prefix pair (i,j) equals distance(a[..i], b[..j]) computed "
                                    "on its own (what the word matcher reads)",
         "bounds": "(n1,n2,i,j) as listed", "opts": {"unwind": 8, "timeout": 1500, "unwindset": DL_UNWINDSET},
         "quick": ["dl_prefix_2_2_1_1", "dl_prefix_2_2_1_2", "dl_prefix_3_2_2_1"],
         "thorough": ["dl_prefix_3_3_2_2", "dl_prefix_3_3_2_3", "dl_prefix_3_3_3_2", "dl_prefix_3_3_1_3", "dl_prefix_4_3_3_3", "dl_prefix_3_4_2_4"]},
    ],
}
