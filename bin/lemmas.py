"""Registered lemmas: which harness instances decide which property (see DESIGN.md §5).
Each lemma: id, text (what the solver decides), bounds, quick / thorough instance lists, opts."""

COMMON_ASSUMPTIONS = [
    "Kani 0.68 / CBMC 6.11 semantics of MIR and their models of the allocator (allocation never fails)",
    "single thread (the crate's scratch state is thread-local; WASM is single-threaded)",
    "S1: fnv::FnvHashMap replaced by an association-list map with the same finite-map semantics",
    "H1: thread_local! replaced by a lazily initialised leaked static (cfg lucid_suggest_verif)",
]

def grid(prefix, pairs):
    return ["%s_%s" % (prefix, "_".join(str(x) for x in p)) for p in pairs]

PROPS = {}

PROPS["C17"] = {
    "assumptions": ["T1: <[char]>::sort_unstable replaced by insertion sort (std's documented contract)"],
    "outside": "sequences longer than 5 characters (in particular beyond the initial buffer capacity 20); "
               "pre-state buffer lengths other than those enumerated",
    "lemmas": [
        {"id": "JAC-set", "text": "Jaccard::<char>::similarity(a,b) on a fresh instance == |A∩B|/|A∪B| (1 for two empty "
                                  "sequences) and lies in [0,1], for ALL contents of the given lengths",
         "bounds": "lengths (la,lb) listed in the instance names, every char any Unicode scalar value; loop unwinding 8",
         "opts": {"unwind": 8, "timeout": 900},
         "quick": grid("jac_fresh", [(0,0),(0,2),(2,0),(1,1),(1,2),(2,2),(2,3),(3,2),(3,3)]),
         "thorough": grid("jac_fresh", [(1,4),(4,1),(3,4),(4,3),(4,4),(2,5),(5,2),(4,5),(5,4),(5,5)])},
        {"id": "JAC-sym", "text": "rel_dist(b,a) == 1 - similarity(a,b) on independent instances (symmetry)",
         "bounds": "lengths as listed", "opts": {"unwind": 8, "timeout": 900},
         "quick": grid("jac_sym", [(2,2),(3,2),(0,3)]), "thorough": grid("jac_sym", [(3,4)])},
        {"id": "JAC-hist", "text": "history independence: with ARBITRARY previous contents of both scratch buffers "
                                   "(lengths p1,p2 shorter, equal, longer than needed) the value is the set similarity",
         "bounds": "(la,lb,p1,p2) as listed", "opts": {"unwind": 8, "timeout": 900},
         "quick": grid("jac_hist", [(2,2,0,3),(2,3,1,5),(3,2,3,2)]),
         "thorough": grid("jac_hist", [(3,3,5,1),(4,4,6,1),(4,3,1,6)])},
        {"id": "JAC-merge", "text": "simple_similarity on strictly increasing inputs == |A∩B|/|A∪B|",
         "bounds": "lengths as listed", "opts": {"unwind": 8, "timeout": 900},
         "quick": grid("jac_simple", [(0,3),(3,3),(2,4)]), "thorough": grid("jac_simple", [(4,4),(5,5),(6,6)])},
    ],
}
