"""Registered lemmas: which harness instances decide which property (see DESIGN.md §5).
Each lemma: id, text (what the solver decides), bounds, quick / thorough instance lists, opts."""

COMMON_ASSUMPTIONS = [
    "Kani 0.68 / CBMC 6.11 semantics of MIR and their models of the allocator (allocation never fails)",
    "single thread (the crate's scratch state is thread-local; WASM is single-threaded)",
    "S1: fnv::FnvHashMap replaced by an association-list map with the same finite-map semantics",
    "H1: thread_local! replaced by a lazily initialised leaked static (cfg lucid_suggest_verif)",
]

def grid(prefix, pairs):
    return ["%s_%s" % (prefix, "_".join(str(x) for x in p)) for p in pairs]

PROPS = {}

PROPS["C17"] = {
    "assumptions": ["T1: <[char]>::sort_unstable replaced by insertion sort (std's documented contract)"],
    "outside": "sequences longer than 3x4 / 5x2 characters (4x4 does not finish in 15 min), in particular beyond the initial buffer capacity 20 (growth is covered at small scale by jac_cap under C19); "
               "pre-state buffer lengths other than those enumerated",
    "lemmas": [
        {"id": "JAC-set", "text": "Jaccard::<char>::similarity(a,b) on a fresh instance == |A∩B|/|A∪B| (1 for two empty "
                                  "sequences) and lies in [0,1], for ALL contents of the given lengths",
         "bounds": "lengths (la,lb) listed in the instance names, every char any Unicode scalar value; loop unwinding 8",
         "opts": {"unwind": 8, "timeout": 900},
         "quick": grid("jac_fresh", [(1,1),(1,2),(2,2),(2,3),(3,2),(3,3)]),
         "thorough": grid("jac_fresh", [(1,4),(4,1),(3,4),(4,3),(2,5),(5,2)])},
        {"id": "JAC-sym", "text": "rel_dist(b,a) == 1 - similarity(a,b) on independent instances (symmetry)",
         "bounds": "lengths as listed", "opts": {"unwind": 8, "timeout": 900},
         "quick": grid("jac_sym", [(2,2),(3,2)]), "thorough": grid("jac_sym", [(3,4)])},
        {"id": "JAC-hist", "text": "history independence: with ARBITRARY previous contents of both scratch buffers "
                                   "(lengths p1,p2 shorter, equal, longer than needed) the value is the set similarity",
         "bounds": "(la,lb,p1,p2) as listed", "opts": {"unwind": 8, "timeout": 900},
         "quick": grid("jac_hist", [(2,2,1,3),(2,3,1,5),(3,2,3,2)]),
         "thorough": grid("jac_hist", [(3,3,5,1),(4,3,1,6)]), "per_instance": {"jac_hist_4_3_1_6": {"unwind": 10, "timeout": 1800}}},
        {"id": "JAC-merge", "text": "simple_similarity on strictly increasing inputs == |A∩B|/|A∪B|",
         "bounds": "lengths as listed", "opts": {"unwind": 8, "timeout": 900},
         "quick": grid("jac_simple", [(3,3),(2,4)]), "thorough": grid("jac_simple", [(4,4),(5,5),(6,6)]),
         "per_instance": {"jac_simple_4_4": {"unwind": 10}, "jac_simple_5_5": {"unwind": 12}, "jac_simple_6_6": {"unwind": 14}}},
    ],
}

DL_UNWINDSET = [(r"DistMatrix::init", 24), (r"Vec::<f64>::extend_with", 130)]

PROPS["C16"] = {
    "assumptions": ["words are built directly as WordView values (the tokeniser is not executed, DESIGN F5)"],
    "outside": "empty words (the matcher returns before computing a distance; zero-length arrays blow up CBMC's pointer encoding); words longer than 4 characters (5x2 in the thorough tier); matrices grown beyond 7x7; "
               "'several times the capacity' is only covered through the arbitrary-pre-state lemma DL-hist",
    "lemmas": [
        {"id": "DL-laws", "text": "on a fresh DamerauLevenshtein of the given capacity: distance == 0 iff the words are equal; "
                                  "distance >= 0 and 2*distance is an integer; distance <= plain Levenshtein; "
                                  "2*distance >= unrestricted Damerau-Levenshtein (both references computed in the harness on the "
                                  "same symbolic words)",
         "bounds": "(n1,n2,capacity) from the instance names; every char any Unicode scalar, every class any of the 8 classes; unwind 8 "
                   "(init loop 24, resize 130)",
         "opts": {"unwind": 8, "timeout": 1500, "unwindset": DL_UNWINDSET},
         "quick": ["dl_laws_1_1_20", "dl_laws_1_2_20", "dl_laws_2_1_20", "dl_laws_2_2_2",
                   "dl_laws_2_3_3", "dl_laws_3_2_3", "dl_laws_3_1_1", "dl_laws_3_3_3"],
         "thorough": ["dl_laws_2_2_20", "dl_laws_3_3_20", "dl_laws_3_4_4", "dl_laws_4_3_4", "dl_laws_4_4_4", "dl_laws_2_5_5",
                      "dl_laws_5_2_5", "dl_laws_2_4_1"]},
        {"id": "DL-sym", "text": "distance(a,b) == distance(b,a), second call on the same instance",
         "bounds": "(n1,n2,capacity) as listed", "opts": {"unwind": 8, "timeout": 1500, "unwindset": DL_UNWINDSET},
         "quick": ["dl_sym_1_2_2", "dl_sym_2_2_2", "dl_sym_2_3_3", "dl_sym_2_3_1"], "thorough": ["dl_sym_3_3_3"]},
        {"id": "DL-discount", "text": "distance with arbitrary character classes <= distance of the same characters with all classes Consonant",
         "bounds": "(n1,n2,capacity) as listed", "opts": {"unwind": 8, "timeout": 1500, "unwindset": DL_UNWINDSET},
         "quick": ["dl_disc_2_2_2", "dl_disc_2_3_3"], "thorough": ["dl_disc_3_3_3", "dl_disc_3_4_4"]},
        {"id": "DL-hist", "text": "history independence: starting from ANY matrix of dimension S satisfying the representation invariant "
                                  "(sentinel row/column = S, origin 0, every other cell an arbitrary float) the result equals that of a "
                                  "fresh instance; S smaller than needed exercises growth",
         "bounds": "(n1,n2,S) as listed; S ranges over n (two short), n+1 (one short), n+2 (exact), n+3, n+4",
         "opts": {"unwind": 8, "timeout": 1500, "unwindset": DL_UNWINDSET},
         "quick": ["dl_hist_1_1_2", "dl_hist_1_2_3", "dl_hist_2_2_2", "dl_hist_2_2_3", "dl_hist_2_2_4", "dl_hist_2_2_5", "dl_hist_2_2_6", "dl_hist_3_2_3", "dl_hist_1_3_4", "dl_hist_3_1_5", "dl_hist_1_3_5", "dl_hist_2_3_5"],
         "thorough": ["dl_hist_4_1_6", "dl_hist_3_3_2", "dl_hist_3_3_3", "dl_hist_3_3_4", "dl_hist_3_3_5", "dl_hist_3_3_7", "dl_hist_4_3_3"]},
        {"id": "DL-inv", "text": "the representation invariant assumed by DL-hist is re-established by every call (and the matrix is "
                                 "at least (n+2)x(n+2) with a flat buffer of size^2)",
         "bounds": "(n1,n2,S) as listed", "opts": {"unwind": 8, "timeout": 1500, "unwindset": DL_UNWINDSET},
         "quick": ["dl_inv_1_2_3", "dl_inv_2_2_2", "dl_inv_2_2_3", "dl_inv_2_2_4", "dl_inv_2_3_5"], "thorough": ["dl_inv_3_1_6", "dl_inv_3_3_4"]},
        {"id": "DL-prefix", "text": "after distance(a,b) the matrix cell for the prefix pair (i,j) equals distance(a[..i], b[..j]) computed "
                                    "on its own (what the word matcher reads)",
         "bounds": "(n1,n2,i,j) as listed", "opts": {"unwind": 8, "timeout": 1500, "unwindset": DL_UNWINDSET},
         "quick": ["dl_prefix_2_2_1_1", "dl_prefix_2_2_1_2", "dl_prefix_3_2_2_1"],
         "thorough": ["dl_prefix_3_3_2_2", "dl_prefix_3_3_2_3", "dl_prefix_3_3_3_2", "dl_prefix_3_3_1_3", "dl_prefix_4_3_3_3", "dl_prefix_3_4_2_4"]},
    ],
}

# ---------------------------------------------------------------------------------------------
# C19: the same kernels with ALL of CBMC's pointer / bounds checks selected (checks != functional)
# and the hook H3 (row < size && column < size) compiled in.
PROPS["C19"] = {
    "assumptions": ["H3: DistMatrix::get_unchecked / set_unchecked assert i < size && j < size under cfg(lucid_suggest_verif)"],
    "outside": "the trigram counters on SYMBOLIC titles (MEM-counters uses concrete one-letter titles); words longer than "
               "3-4 characters; matrix capacities other than those listed (growth is covered from arbitrary smaller matrices)",
    "lemmas": [
        {"id": "MEM-matrix", "text": "every get_unchecked/set_unchecked of the distance matrix has row < size and column < size (H3), and "
                                     "every raw pointer access in DamerauLevenshtein::distance (cost vectors, previous-character reads, flat "
                                     "matrix buffer) is inside its object - from ARBITRARY earlier matrices smaller, equal and larger than needed",
         "bounds": "(n1,n2,S) of the dl_hist / dl_inv instances; all CBMC pointer checks selected",
         "opts": {"unwind": 8, "timeout": 1500, "unwindset": DL_UNWINDSET},
         "quick": ["dl_hist_1_1_2", "dl_hist_1_2_3", "dl_hist_2_2_2", "dl_hist_2_2_3", "dl_hist_2_2_4", "dl_hist_2_2_5", "dl_hist_3_2_3", "dl_hist_1_3_4", "dl_hist_3_1_4", "dl_inv_2_2_3", "dl_inv_2_3_5",
                   "dl_laws_1_1_20", "dl_laws_2_1_20"],
         "thorough": ["dl_hist_2_2_6", "dl_hist_2_3_5", "dl_hist_1_4_5", "dl_hist_3_3_2", "dl_hist_3_3_3", "dl_hist_3_3_4", "dl_hist_3_3_5", "dl_hist_3_3_7", "dl_hist_4_3_3", "dl_inv_3_1_6",
                      "dl_laws_3_3_20", "dl_laws_4_4_4"]},
        {"id": "MEM-counters", "text": "TrigramIndex::prepare after the named histories (incl. clear + add): every counts.get_unchecked_mut(ix) is in range "
                                       "(all CBMC pointer checks selected; concrete one-letter titles)",
         "bounds": "histories of the instance names", "opts": {"unwind": 6, "timeout": 2400, "mem_gb": 14, "sched_gb": 14},
         "quick": ["st_hq_add_qa", "st_hq_add_clear_add_qa"], "thorough": ["st_hq_add_clear_qa", "st_hq_add_clear_add_qb"]},
        {"id": "MEM-jaccard", "text": "every unchecked read of the Jaccard merge (simple_similarity) and every buffer access of "
                                      "Jaccard::similarity is in range, from ARBITRARY earlier buffer contents shorter / longer than needed, and from buffers of small CAPACITY (jac_cap: growth path)",
         "bounds": "(la,lb,p1,p2) of the jac_hist / jac_simple instances, (la,lb,cap1,cap2) of jac_cap; all CBMC pointer checks selected",
         "opts": {"unwind": 8, "timeout": 1500},
         "quick": ["jac_hist_2_2_1_3", "jac_hist_2_3_1_5", "jac_hist_3_2_3_2", "jac_cap_1_3_1_1", "jac_cap_3_1_1_1", "jac_cap_2_3_1_1", "jac_cap_3_2_1_2", "jac_simple_3_3", "jac_simple_2_4"],
         "thorough": ["jac_hist_3_3_5_1", "jac_hist_4_3_1_6", "jac_cap_2_3_2_2", "jac_cap_3_3_2_1", "jac_simple_5_5", "jac_simple_6_6"],
         "per_instance": {"jac_simple_5_5": {"unwind": 12}, "jac_simple_6_6": {"unwind": 14}, "jac_hist_4_3_1_6": {"unwind": 10, "timeout": 1800}}},
    ],
}

LS_Q = ["ls_topk_0_0", "ls_topk_0_2", "ls_topk_1_1", "ls_topk_2_1", "ls_topk_3_1", "ls_topk_3_2", "ls_topk_3_3", "ls_topk_3_5",
        "ls_topk_4_1", "ls_topk_5_2"]
LS_T = ["ls_topk_4_2", "ls_topk_5_1", "ls_topk_5_3", "ls_topk_6_2", "ls_topk_6_3", "ls_topk_7_1", "ls_topk_7_2", "ls_topk_7_3",
        "ls_topk_4_4", "ls_topk_4_6", "ls_stable_5_2", "ls_stable_3_4"]
LS_LEMMA = {"id": "LS-topk", "text": "real LimitSortIter (limit_sort_unstable) over n items with symbolic keys: yields exactly min(limit,n) items, "
                                     "each an input item, none twice, in comparator order, and no omitted item is strictly better than a listed "
                                     "one - hence with pairwise distinct keys exactly the first `limit` of the full order, independent of the "
                                     "input order, and equal to the truncation of the unlimited run",
            "bounds": "(n,limit) from the instance names, n <= 7, limit in 1..6 (covers the sort-and-truncate-every-2*limit path for "
                      "n >= 2*limit+1); keys any u32; unwind 10",
            "opts": {"unwind": 10, "timeout": 900}, "quick": LS_Q, "thorough": LS_T}
CMP_LEMMA = {"id": "CMP-order", "text": "compare_hits on three hits with ARBITRARY score vectors is the lexicographic 'higher component first' "
                                        "order over (chars, words, tails, trans, fin, offset, rating, word count, char count): irreflexive, "
                                        "antisymmetric, transitive, ties transitive, and two hits tie only if all nine components - in "
                                        "particular the ratings - are equal",
             "bounds": "all 3x9 isize components symbolic", "opts": {"unwind": 11, "timeout": 900},
             "quick": ["cmp_strict_weak_order"], "thorough": []}

PROPS["C06"] = {
    "assumptions": ["glue (argument in DESIGN.md §5 C06, not solver-decided): Store::search is candidates -> map(score) -> filter -> "
                    "limit_sort_unstable(limit, compare_hits) -> highlight"],
    "outside": "the clause 'a record\'s verdict depends only on that record and the query' (three matcher calls in one harness exceed 24 GB; the scratch buffers' history independence is decided per kernel under C16/C17); limit = 0 with a non-empty input (Kani artefact F13), stores of more than 7 "
               "candidates, the wiring of Store::search itself, the index cap (C18)",
    "lemmas": [LS_LEMMA],
}
PROPS["C07"] = {
    "assumptions": ["glue (DESIGN.md §5 C07): the relative order of two hits is compare_hits of their own score vectors (TM-local, C06); "
                    "with pairwise distinct ratings compare_hits never ties, so LS-topk's output is unique"],
    "outside": "as C06",
    "lemmas": [CMP_LEMMA, LS_LEMMA],
}

WM_OPTS = {"unwind": 7, "timeout": 2400, "checks": "functional", "mem_gb": 8}
TM_OPTS = {"unwind": 7, "timeout": 2400, "checks": "functional", "mem_gb": 10}
WORD_ASSUME = [
    "WF: texts are built directly in the tokeniser's output format (DESIGN §4); the tokeniser itself is not executed",
    "STEM: stem lengths are the concrete values in the instance names (the matcher's scan range depends on them); "
    "POS: the function-word flag of every word is an arbitrary symbolic value",
    "H4: the thread-local distance matrix starts with a capacity that fits the shape (DAMLEV_CAPACITY hook); capacity "
    "independence of the distance is lemma DL-hist of C16",
]
WM_CONTRACT = {"id": "WM-contract", "text": "whatever the REAL word_match returns for two words of the given lengths/stems satisfies the match "
                                             "contract: span starts at the word start, 1 <= title span <= word, stem <= query span <= word, spans differ "
                                             "by at most one, typos a non-negative multiple of 0.5 not above 0.21*longest span, 2*ceil(typos) <= matched "
                                             "length (no wrap-around in the score), flags consistent; and nothing panics / overflows on the way",
               "bounds": "(|r|,|q|,stem_r,stem_q,finished) from the instance names, |r|,|q| <= 3; all chars, classes, POS flags symbolic",
               "opts": WM_OPTS,
               "quick": ["wm_con_1_1_1_1_f", "wm_con_1_1_1_1_u", "wm_con_2_2_2_2_f", "wm_con_2_2_1_1_u", "wm_con_2_1_2_1_u", "wm_con_1_2_1_2_f"],
               "thorough": ["wm_con_3_3_3_3_f", "wm_con_3_3_2_2_f", "wm_con_3_3_1_1_u", "wm_con_3_2_3_2_u", "wm_con_2_3_2_3_f"],
               "per_instance": {"wm_con_3_3_1_1_u": {"mem_gb": 44, "timeout": 3000}, "wm_con_3_3_2_2_f": {"mem_gb": 16}, "wm_con_3_3_3_3_f": {"mem_gb": 16}}}
WM_PREFIX = {"id": "WM-prefix", "text": "if the query word is the k-letter prefix of the title word (same characters and classes), unfinished - or "
                                         "finished when k = |word| - the REAL word_match matches and reports exactly the span (0,k) on both sides with zero typos",
             "bounds": "(|r|,k,stem_r,stem_q,finished) from the instance names, |r| <= 3", "opts": WM_OPTS,
             "quick": ["wm_pre_1_1_1_1_u", "wm_pre_1_1_1_1_f", "wm_pre_2_1_2_1_u", "wm_pre_2_2_2_2_u", "wm_pre_2_2_1_1_f", "wm_pre_2_2_1_1_u", "wm_pre_3_1_3_1_u", "wm_pre_3_2_3_2_u"],
             "thorough": ["wm_pre_3_2_2_1_u", "wm_pre_3_3_3_3_u", "wm_pre_3_3_2_2_f", "wm_pre_3_3_1_1_u", "wm_pre_3_2_1_1_u", "wm_pre_3_3_1_2_u"],
             "per_instance": {"wm_pre_3_3_1_1_u": {"mem_gb": 44, "timeout": 3000}, "wm_pre_3_2_1_1_u": {"mem_gb": 30, "timeout": 3000},
                              "wm_pre_3_3_1_2_u": {"mem_gb": 44, "timeout": 3000}, "wm_pre_3_2_2_1_u": {"mem_gb": 24}}}
WM_GATES = {"id": "WM-gates", "text": "for a k-letter prefix (unfinished; or the finished exact copy when k = n) of an n-letter title word the REAL "
                                       "length_check and jaccard_check both accept - the two pre-filters of the matcher, decided on longer words than "
                                       "the full matcher can be run on",
            "bounds": "(n,k,finished) from the instance names, n <= 6; all chars and classes symbolic",
            "opts": {"unwind": 9, "timeout": 1500, "checks": "functional", "mem_gb": 10},
            "quick": ["wm_gate_2_1_u", "wm_gate_3_2_u", "wm_gate_3_3_f", "wm_gate_4_1_u", "wm_gate_4_2_u", "wm_gate_4_3_u", "wm_gate_4_4_f", "wm_gate_4_4_u"],
            "thorough": ["wm_gate_5_1_u", "wm_gate_5_2_u", "wm_gate_5_3_u", "wm_gate_5_4_u", "wm_gate_5_5_f", "wm_gate_5_5_u", "wm_gate_6_2_u", "wm_gate_6_3_u", "wm_gate_6_5_u", "wm_gate_6_6_f"]}
WM_EQ = {"id": "WM-equal", "text": "a finished exact copy of a word matches it in full with zero typos", "bounds": "(n,stem_r,stem_q), n <= 3",
         "opts": WM_OPTS, "quick": ["wm_eq_1", "wm_eq_2", "wm_eq_2_s1"], "thorough": ["wm_eq_3", "wm_eq_3_s2"]}
TRI_PREFIX = {"id": "TRI-prefix", "text": "a k-letter prefix of an n-letter word shares at least one gram with the word (real collect_grams on both), "
                                          "and collect_grams returns exactly the set of distinct grams of the definition, strictly increasing",
              "bounds": "(n,k) from the instance names, n <= 5", "opts": {"unwind": 8, "timeout": 1500, "checks": "functional", "mem_gb": 10},
              "quick": ["idx_pre_1_1", "idx_pre_2_1", "idx_pre_2_2", "idx_pre_3_1", "idx_pre_3_2"], "thorough": ["idx_pre_3_3", "idx_pre_4_2", "idx_pre_4_3", "idx_pre_5_4"]}
TM_STRUCT = {"id": "TM-structure", "text": "REAL text_match + score + hit_matches on a title and a query of the given shapes: no panic, no arithmetic "
                                            "overflow; every title match is aligned with a title word, starts at its first character, is non-empty, ends inside "
                                            "the word, each word matched at most once, in word order; no span is longer than the typed stretch + 1; a non-empty "
                                            "query is kept only with at least one span; an empty query keeps every record with no span; the matched-characters "
                                            "score is non-negative and the rating component is the record's rating",
             "bounds": "title/query word shapes and stems from the instance names (one word of 1-3 letters each side, or an empty side; two-word titles exceed 10 GB); all chars, classes, POS flags, rating symbolic",
             "opts": TM_OPTS,
             "quick": ["tm_r1_q1", "tm_r2_q2", "tm_r2_q0", "tm_r0_q2", "tm_ascii_r1_q1"], "thorough": ["tm_r2_q2u", "tm_r3_q3", "tm_r3_q3u", "tm_ascii_r2_q2"],
             "per_instance": {"tm_r3_q3u": {"mem_gb": 40, "timeout": 3000}, "tm_r3_q3": {"mem_gb": 20}}}

SPLIT_SAFE = {"id": "SPLIT-safe", "text": "for ANY joined match permitted by the matcher's contract over two title words (l1 letters, gap, l2 letters): the real "
                                         "WordView::join has the right extent and stem; the real WordMatch::split returns parts aligned with the two words, the "
                                         "first covering word 1, the second a non-empty prefix of word 2, typo shares within [0, typos]; and the real "
                                         "score_chars_up / tails / trans / words / offset / fin on the two parts do not overflow (CBMC overflow checks) and "
                                         "yield small numbers",
              "bounds": "(l1,gap,l2) from the instance names, total <= 11 characters; span, typo count (multiples of 0.5 up to 3.5), fin flag symbolic",
              "opts": {"unwind": 13, "timeout": 1200, "mem_gb": 10},
              "quick": ["split_1_1_1", "split_1_1_2", "split_2_1_1", "split_2_1_2", "split_2_1_3", "split_1_2_1", "split_2_2_2"],
              "thorough": ["split_1_1_5", "split_3_1_3", "split_1_3_2", "split_4_1_4", "split_1_1_8", "split_5_1_5"]}

REG_LIMIT = {"id": "REG-limit", "text": "top-level registry, real lib.rs: create_store, K hits in the result buffer, then set_limit with a SYMBOLIC limit: no "
                                        "underflow / panic / capacity overflow, the limit is stored, the buffered result is untouched and the buffer can hold `limit` hits",
             "bounds": "K buffered hits and limit < LMAX from the instance names (limit below, equal to and above the default capacity 10)",
             "opts": {"unwind": 12, "timeout": 900, "mem_gb": 12},
             "quick": ["reg_limit_0_4", "reg_limit_3_8", "reg_limit_5_8", "reg_limit_3_14"], "thorough": ["reg_limit_10_14"]}

PROPS["C03"] = {
    "assumptions": WORD_ASSUME + ["glue (DESIGN §5 C03): record listed by the index (TRI-prefix + index completeness, which is outside reach) -> "
                                  "word matched (WM-prefix) -> kept by text_match and the filter (TM-structure at one-word shapes) -> not truncated (LS-topk)"],
    "outside": "words longer than 3 letters at the matcher level (4x4 exceeds 40 GB), longer than 5 at the gram level; the index's posting lists; the tokeniser",
    "lemmas": [WM_PREFIX, WM_GATES, TRI_PREFIX],
}
PROPS["C13"] = {
    "assumptions": WORD_ASSUME + ["glue: as C03 with WM-equal for each word"],
    "outside": "words longer than 3 letters; titles of more than one word at the text level (the two-word orderings are not decided); the tokeniser",
    "lemmas": [WM_EQ, dict(WM_GATES, id="WM-gates-equal", quick=["wm_gate_3_3_f", "wm_gate_4_4_f"], thorough=["wm_gate_5_5_f", "wm_gate_6_6_f"])],
}
PROPS["C05"] = {
    "assumptions": WORD_ASSUME,
    "outside": "words longer than 3 letters; 'original character that folds to two' (needs normalisation); the index soundness half (C18 is only "
               "decided at the gram-set level)",
    "lemmas": [WM_CONTRACT, WM_PREFIX,
               dict(TM_STRUCT, id="TM-span", quick=["tm_r1_q1", "tm_r2_q2"], thorough=["tm_r3_q3", "tm_r2_q2u"])],
}
PROPS["C09"] = {
    "assumptions": WORD_ASSUME + ["glue: highlight() emits one marker pair per title match from word.slice.0 to word.slice.0 + span (15 lines, "
                                  "not solver-decided: String building with symbolic characters does not finish, DESIGN F11)"],
    "outside": "the rendered string itself; titles of more than two words; words longer than 3 letters",
    "lemmas": [TM_STRUCT, dict(SPLIT_SAFE, id="SPLIT-structure")],
}
PROPS["C01"] = {
    "assumptions": WORD_ASSUME,
    "outside": "the tokeniser and normalisation on arbitrary Unicode, Store level, the registry beyond set_limit (add_record / run_search run the tokeniser), highlight string building, words longer than 3 letters, "
               "more than two words per text; 'no hang' only as termination within the unwinding bounds",
    "lemmas": [dict(TM_STRUCT, id="TM-safe"), dict(WM_CONTRACT, id="WM-safe"), SPLIT_SAFE, REG_LIMIT,
               {"id": "K-safe", "text": "distance / Jaccard / LimitSort kernels: no panic, no overflow, all memory accesses in range (all CBMC checks selected)",
                "bounds": "kernel shapes as listed", "opts": {"unwind": 10, "timeout": 1500, "unwindset": DL_UNWINDSET},
                "quick": ["dl_laws_2_2_2", "dl_hist_2_2_2", "jac_fresh_2_3", "ls_topk_3_2"], "thorough": ["dl_laws_3_3_3", "jac_fresh_3_3", "ls_topk_7_3"]}],
}
PROPS["C18"] = {
    "assumptions": ["only the gram-set level of the property is decided: which grams a word has and that a text's gram list is their duplicate-free set; "
                    "the cap / ordering logic is LimitSortIter (LS-topk)"],
    "outside": "TrigramIndex::add / prepare themselves (posting lists, counters, the 10 x size cap wiring): even one 1-letter record runs out of "
               "memory under CBMC (DESIGN F12); so 'only existing positions', 'all sharers listed' are NOT decided",
    "lemmas": [{"id": "TRI-iter", "text": "TrigramIter yields for a word of n letters exactly: its 1-letter start, its 2-letter start (NUL padded), then every "
                                          "window of three letters, in order, and nothing else", "bounds": "n in 0..6, all chars symbolic",
                "opts": {"unwind": 9, "timeout": 900}, "quick": ["idx_iter_1", "idx_iter_2", "idx_iter_3", "idx_iter_4"], "thorough": ["idx_iter_5", "idx_iter_6"]},
               TRI_PREFIX, dict(LS_LEMMA, id="LS-cap")],
}

PROPS["C08"] = {
    "assumptions": ["the match vectors of each scenario are GIVEN (full word / k-letter prefix / typo match, as the WM lemmas show the matcher reports them "
                    "for words up to 3 letters; for the 5-9 letter words of the property text this is an assumption); word lengths, prefix length, "
                    "tail length, both ratings symbolic (lengths <= 40, ratings < 2^31)",
                    "wiring: TM-structure (C09) checks on the real score() that component i is filled by the i-th priority function"],
    "outside": "that the matcher produces these match vectors for 5-9 letter words (F14); both insertion orders at the store level (F12); real function-word lists",
    "lemmas": [{"id": "RANK-rules", "text": "with the real score_* functions and the real compare_hits: exact word outranks typo match; both query words outrank one; "
                                            "'u' outranks 'u'+tail for the full word and any typed prefix; 'u v x' outranks 'u x v'; 'u x' outranks 'x u'; among identical "
                                            "titles higher rating first and at equal rating 'u' outranks 'u x'; a content word starting with a function word f outranks a "
                                            "title containing f - all for ALL ratings in [0, 2^31) and all lengths up to 40",
                "bounds": "lengths 1..40 symbolic, ratings symbolic, typos 0.5 or 1.0 within the matcher's threshold",
                "opts": {"unwind": 11, "timeout": 900},
                "quick": ["rank_exact_vs_typo", "rank_both_vs_one", "rank_word_vs_longer", "rank_adjacent", "rank_first_vs_second",
                          "rank_rating_then_length", "rank_content_vs_function"], "thorough": []},
               CMP_LEMMA],
}

PROPS["C04"] = {
    "assumptions": WORD_ASSUME + ["glue (NOT solver-decided, DESIGN §5 C04): given that both pre-filters accept and the distance of the full pair is within the "
                                  "threshold, the matcher's scan visits the full-length pair (rslice = |r|, qslice = |q|, lengths differ by at most one) and "
                                  "records a match; the scan itself is decided only for words up to 3 letters (WM-contract, WM-prefix)"],
    "outside": "the composed word_match on words of >= 4 letters (> 40 GB, F14) - so 'the record is found' is NOT decided end to end; words longer than 6 letters; "
               "index / text level as for C03",
    "lemmas": [
        {"id": "WM-gates-typo", "text": "title word of n letters (>= 3 distinct, letter classes), finished query = ONE edit of it at a symbolic position "
                                        "(substitution by a different letter / insertion / deletion / adjacent transposition): the REAL length_check and "
                                        "jaccard_check both accept",
         "bounds": "n = 5: all four edit kinds; n = 6: deletion and transposition (substitution / insertion at n = 6 take > 35 min each); position symbolic; all chars and classes symbolic",
         "opts": {"unwind": 9, "timeout": 3000, "checks": "functional", "mem_gb": 10},
         "quick": ["wm_gtypo_5_del", "wm_gtypo_5_tr", "wm_gtypo_5_sub"],
         "thorough": ["wm_gtypo_5_ins", "wm_gtypo_6_del", "wm_gtypo_6_tr"]},
        {"id": "DL-typo", "text": "for the same pairs the REAL DamerauLevenshtein::distance is at most 1, its ratio to the longer length is within the matcher's "
                                  "threshold 0.21, and the matrix cell the matcher reads for the full pair holds that distance",
         "bounds": "n = 5: substitution, deletion, transposition (insertion = 5x6 exceeds 12 GB); n = 6: deletion only (6x6 has 26 M variables); all chars and (letter) classes symbolic", "opts": {"unwind": 9, "timeout": 3000, "checks": "functional", "mem_gb": 12},
         "quick": ["wm_dtypo_5_tr"], "thorough": ["wm_dtypo_5_sub", "wm_dtypo_5_del", "wm_dtypo_6_del"],
         "per_instance": {"wm_dtypo_6_del": {"mem_gb": 24, "timeout": 3600}}},
    ],
}

PROPS["C14"] = {
    "assumptions": WORD_ASSUME + ["the separator between the two words carries class NotAlpha (what set_char_classes assigns to a non-alphabetic character)",
                                  "glue (NOT solver-decided): given that both pre-filters accept and the distance is within the threshold, word_match's scan records "
                                  "the full-length pair (decided only for words up to 3 letters), and text_match tries the joined view of two ADJACENT words before "
                                  "the plain pair (a reading of text.rs:34-66; the text matcher on joined shapes exceeds 28 GB, F14)"],
    "outside": "the composed word_match on the joined word (>= 4 characters) and text_match's joined attempts themselves - so 'is found' is NOT decided end to end; "
               "concatenations longer than 5 letters; gaps wider than one character are not claimed by the property",
    "lemmas": [
        {"id": "JOIN-title", "text": "two adjacent title words a, b separated by one separator, query = a++b (stem = length, finished): the REAL WordView::join has extent "
                                     "|a|+1+|b| and stem to its end; the real length_check and jaccard_check accept; the real distance is <= 0.5 and within the 0.21 "
                                     "threshold; the real WordMatch::split of the full match covers word a entirely and word b entirely",
         "bounds": "(|a|,|b|) from the instance names, |a|+|b| in 3..5; all chars / classes symbolic",
         "opts": {"unwind": 9, "timeout": 3000, "checks": "functional", "mem_gb": 10},
         "quick": ["wm_joint_1_2", "wm_joint_2_1"], "thorough": ["wm_joint_2_2", "wm_joint_1_3", "wm_joint_2_3", "wm_joint_3_2"],
         "per_instance": {"wm_joint_2_3": {"mem_gb": 20, "timeout": 3600}, "wm_joint_3_2": {"mem_gb": 20, "timeout": 3600}}},
        {"id": "JOIN-query", "text": "a title word of n >= 3 letters, query = the word spelled as two words at split point s with one separator: pre-filters accept, "
                                     "distance <= 0.5 and within the threshold, the query-side match splits over the two query words (both parts non-empty)",
         "bounds": "(n,s) from the instance names, n in 3..4 (n = 5: 24 M variables, > 20 GB)", "opts": {"unwind": 9, "timeout": 3000, "checks": "functional", "mem_gb": 10},
         "quick": ["wm_joinq_3_1", "wm_joinq_3_2"], "thorough": ["wm_joinq_4_1", "wm_joinq_4_2"]},
        dict(SPLIT_SAFE, id="SPLIT-structure"),
    ],
}

# ---------------------------------------------------------------------------------------------
# Store level (possible since the fnv shim's Entry was rewritten, DESIGN F12b): real Store::add /
# clear / top_ixs / TrigramIndex::add / prepare on CONCRETE one- and two-letter titles, with
# SYMBOLIC ratings and ids; the matcher is never run.
ST_OPTS = {"unwind": 6, "timeout": 2400, "checks": "functional", "mem_gb": 14, "sched_gb": 9}
ST_ASSUME = ["titles are CONCRETE one-word texts (\"a\", \"b\", \"ab\", \"ba\", \"B\" (normalised \"b\"), empty) built directly in the tokeniser's output format; ratings (< 2^31) and ids are symbolic",
             "Store::records and the index's counter vector are given capacity up front (hook verif_presize): growing a vector from capacity zero inside a struct "
             "trips a Kani artefact (F13); capacities are not observable",
             "histories are the ENUMERATED operation sequences of the instance names (up to 5 operations), not all sequences"]
ST_TOP = {"id": "ST-top", "text": "real Store::top_ixs (the empty-query candidate list) on n records with symbolic ratings: exactly min(limit, n) distinct positions of stored "
                                   "records, ratings non-increasing, no omitted record rated higher than a listed one, and among equal ratings an omitted record does not "
                                   "precede a listed one in code-point order of the titles",
          "bounds": "titles / limit from the instance names: 1-3 records, limit 1..3 (limit 0 with records: F13)", "opts": ST_OPTS,
          "quick": ["st_top_a_l1", "st_top_ab_l1", "st_top_ab_l3", "st_top_ba_l1", "st_top_aba_l1", "st_top_e_a_l1", "st_top_Ba_l1", "st_top_aB_l1"],
          "thorough": ["st_top_aba_l2", "st_top_b_ab_a_l1", "st_top_b_ab_a_l2", "st_top_Bab_l2"]}
ST_HT = {"id": "ST-top-history", "text": "after the history (add / clear / set limit / set markers / empty-query lookup, as named) the store holds exactly the records added since "
                                          "the last clear, at their positions, with the current limit, and its empty-query candidate list equals that of a store built from "
                                          "scratch with those records and that limit - in particular records added after an empty-query search show up, and a changed limit takes effect",
         "bounds": "histories of the instance names (op codes in store.rs::apply), ratings / ids symbolic", "opts": ST_OPTS,
         "quick": ["st_ht_add", "st_ht_add_add", "st_ht_top_add", "st_ht_add_top_add", "st_ht_add_top_clear_add", "st_ht_add_add_l1_top_l2", "st_ht_add_clear_add",
                   "st_ht_l1_add_top_add", "st_ht_l1_addb_top_add"],
         "thorough": ["st_ht_add_add_l2_top_l1", "st_ht_add_mark_top_add", "st_ht_add_top_top", "st_ht_l2_add_add_top_add"]}
ST_HQ = {"id": "ST-query-history", "text": "after the history the index's candidate list for a one-letter query equals that of a store built from scratch, and every candidate is a "
                                            "position of a stored record - in particular after clear() nothing of the cleared records is left in the index",
         "bounds": "histories of the instance names, query \"a\" or \"b\"", "opts": dict(ST_OPTS, sched_gb=14),
         "quick": ["st_hq_add_qa", "st_hq_add_clear_qa", "st_hq_add_clear_add_qa", "st_hq_add_clear_add_qb", "st_hq_add_qa_adde_qb"],
         "thorough": ["st_hq_add_add_qb", "st_hq_add_qa_add_qa", "st_hq_add_qa_addb_qb", "st_hq_addb_qb_add_qa"],
         "per_instance": {"st_hq_add_add_qb": {"mem_gb": 24, "sched_gb": 24}, "st_hq_add_qa_add_qa": {"mem_gb": 24, "sched_gb": 24},
                          "st_hq_add_qa_addb_qb": {"mem_gb": 24, "sched_gb": 24}, "st_hq_addb_qb_add_qa": {"mem_gb": 24, "sched_gb": 24},
                          "st_hq_add_qa_adde_qb": {"mem_gb": 24, "sched_gb": 24}}}

import store_gen_names as _sg
ST_EXH_TOP = {"id": "ST-top-exhaustive", "text": "as ST-top-history, for EVERY operation sequence of length 1..3 over {add \"a\", add \"b\", clear, limit:=1, limit:=2, "
                                                 "empty-query lookup} that contains an add (generated by bin/gen_store_histories.py), ratings / ids symbolic",
              "bounds": "exhaustive up to length 3 over 6 operations (152 histories), plus limit:=1 followed by every sequence of 1-3 operations over 4 operations (56 histories)", "opts": dict(ST_OPTS, sched_gb=6),
              "quick": [], "thorough": _sg.TOP}
ST_EXH_Q = {"id": "ST-query-exhaustive", "text": "as ST-query-history (candidates for the query \"a\"), for EVERY operation sequence of length 1..3 over {add \"a\", add \"b\", "
                                                 "clear, lookup \"a\", lookup \"b\"} with exactly one add (two records plus lookups exceed 20 GB; those are the hand-picked ST-query-history instances)",
            "bounds": "exhaustive up to length 3 over 5 operations, one add", "opts": dict(ST_OPTS, mem_gb=14, sched_gb=5, timeout=3000),
            "quick": [], "thorough": _sg.QUERY}

PROPS["C12"] = {
    "assumptions": ST_ASSUME + ["glue (DESIGN §5 C12): Store::search on an empty query scores each listed record (EMPTY-score: no matches, filter keeps it - lemma TM-structure "
                                "at the empty-query shape), then orders by compare_hits (CMP-order), whose first six components are equal for match-less hits, so the order is "
                                "rating, then fewer words, then fewer characters; highlight() adds no marker without matches"],
    "outside": "more than 3 records (4 exceed 14 GB); limit 0; separator-only query STRINGS (they become empty queries only through the tokeniser); the final "
               "LimitSort / highlight pipeline of Store::search (glued)",
    "lemmas": [ST_TOP, dict(ST_HT, id="ST-top-current", quick=["st_ht_top_add", "st_ht_add_top_add", "st_ht_add_add_l1_top_l2", "st_ht_l1_add_top_add", "st_ht_l1_addb_top_add"], thorough=["st_ht_add_add_l2_top_l1", "st_ht_add_top_clear_add"]),
               dict(TM_STRUCT, id="EMPTY-score", quick=["tm_r2_q0"], thorough=[])],
}
PROPS["C10"] = {
    "assumptions": ST_ASSUME + ["glue: Store::search reads mutable state in exactly two places - index.prepare(query, limit) and top_ixs() - plus records / limit / dividers, "
                                "which ARE the abstract state; everything downstream is a function of (record, query, limit, dividers); the scratch buffers' history "
                                "independence is DL-hist (C16) and JAC-hist (C17)"],
    "outside": "histories other than the enumerated ones; titles other than the concrete ones; Store::search itself after the history; the registry (lib.rs)",
    "lemmas": [ST_HT, ST_HQ, ST_EXH_TOP, ST_EXH_Q],
}
