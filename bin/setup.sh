#!/bin/sh
# Offline setup: warm the two cargo target directories (Kani build of the harness crate and its
# dependencies; native replay build). Everything is rebuilt incrementally by the checks anyway.
set -e
cd "$(dirname "$0")/.."
mkdir -p .build evidence replays
export CARGO_NET_OFFLINE=true
[ -f harness/Cargo.lock ] || cp /repo/rust/core/Cargo.lock harness/Cargo.lock
[ -f replay/Cargo.lock ] || cp /repo/rust/core/Cargo.lock replay/Cargo.lock
( cd harness && RUSTFLAGS="--cfg lucid_suggest_verif" cargo kani -Z stubbing --only-codegen --no-assertion-reach-checks \
    --target-dir ../.build/kani --harness probe_p3 >/dev/null 2>&1 ) || echo "setup: kani warm-up failed (checks will report it)"
( cd replay && RUSTFLAGS="--cfg lucid_suggest_verif" cargo build --offline --target-dir ../.build/replay >/dev/null 2>&1 ) || echo "setup: replay warm-up failed"
echo "setup done"
