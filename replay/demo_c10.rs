//! Public-API demonstration of the two C10 / C12 defects found by the store-level lemmas
//! (ST-top, ST-query). On the unfixed tree:
//!   stale cache : add A; search ""; add B (higher rating); search "" still lists only A
//!   stale index : add "alpha"; clear(); search "alpha" panics (index still lists position 0)
//!                 add "alpha"; clear(); add "beta"; search "alpha" scores record "beta" as a candidate
//! Exit 0 and "OK" when a store after the history answers like a freshly built one.
use lucid_suggest_core::{Store, Record, tokenize_query};
fn ids(store: &Store, q: &str) -> Vec<usize> {
    let q = tokenize_query(q, &store.lang);
    store.search(&q.to_ref()).iter().map(|r| r.id).collect()
}
fn main() {
    let mut bad = 0;
    // 1. empty-query cache after add
    let mut s = Store::new();
    s.add(Record::new(1, "alpha", 10, &s.lang));
    let _ = ids(&s, "");
    s.add(Record::new(2, "beta", 20, &s.lang));
    let got = ids(&s, "");
    if got != vec![2, 1] { println!("C10/C12 VIOLATED (stale empty-query list after add): {:?}, expected [2, 1]", got); bad += 1; }
    // 2. empty-query cache after a limit change
    let mut s = Store::new();
    for i in 0..3 { s.add(Record::new(i, "alpha", 10 + i, &s.lang)); }
    s.limit = 1;
    let _ = ids(&s, "");
    s.limit = 3;
    let got = ids(&s, "");
    if got != vec![2, 1, 0] { println!("C10/C12 VIOLATED (stale empty-query list after a limit change): {:?}, expected [2, 1, 0]", got); bad += 1; }
    // 3. index after clear
    let r = std::panic::catch_unwind(|| {
        let mut s = Store::new();
        s.add(Record::new(1, "alpha", 10, &s.lang));
        s.clear();
        ids(&s, "alpha")
    });
    match r {
        Ok(v) if v.is_empty() => {}
        Ok(v) => { println!("C10 VIOLATED (hits from a cleared store): {:?}", v); bad += 1; }
        Err(_) => { println!("C10/C01 VIOLATED (search panics after clear: stale index position)"); bad += 1; }
    }
    let mut s = Store::new();
    s.add(Record::new(1, "alpha", 10, &s.lang));
    s.clear();
    s.add(Record::new(2, "alpine", 10, &s.lang));
    let got = ids(&s, "alp");
    if got != vec![2] { println!("C10 VIOLATED (after clear + add): {:?}, expected [2]", got); bad += 1; }
    if bad == 0 { println!("OK"); } else { std::process::exit(1); }
}
