//! Public-API demonstration of the C01 defect (score underflow on a split/joined fuzzy match):
//! `demo_c01 <title> <query>` adds one record and searches. On the unfixed tree the dev build
//! panics with "attempt to subtract with overflow" (score.rs) for title "a-bc", query "abc";
//! the release build silently wraps. Exit 0 and the hit list are printed otherwise.
use lucid_suggest_core::{Store, Record, tokenize_query};
fn main() {
    let a: Vec<String> = std::env::args().collect();
    let (title, query) = (a.get(1).map(|s| s.as_str()).unwrap_or("a-bc"), a.get(2).map(|s| s.as_str()).unwrap_or("abc"));
    let mut store = Store::new();
    store.add(Record::new(1, title, 10, &store.lang));
    let q = tokenize_query(query, &store.lang);
    let hits = store.search(&q.to_ref());
    println!("hits: {:?}", hits);
}
