//! Native replay of a solver counterexample: `replay <instance> <v0,v1,...>`.
//! Exit 0: the harness body ran to completion (counterexample does NOT reproduce);
//! exit 101 (panic): an assertion / overflow / bounds check failed natively (reproduces);
//! exit 3: the values violate a harness assumption (not a counterexample).
fn main() {
    let args: Vec<String> = std::env::args().collect();
    if args.len() < 3 { eprintln!("usage: replay <instance> <comma separated u64 values>"); std::process::exit(2); }
    let values: Vec<u64> = args[2].split(',').filter(|s| !s.is_empty()).map(|s| s.trim().parse().expect("u64")).collect();
    let reg = lsv::registry();
    let f = match reg.iter().find(|(n, _)| *n == args[1]) {
        Some((_, f)) => *f,
        None => { eprintln!("unknown instance {}", args[1]); std::process::exit(2); }
    };
    lsv::nd::load(values);
    f();
    println!("REPLAY: completed without failure");
}
