//! S1 (DESIGN.md §2 F2): a stand-in for the `fnv` crate used ONLY when the
//! proof harnesses are compiled. `FnvHashMap` is an association list with the
//! API subset lucid-suggest-core uses. Semantics (a finite map with `Eq` keys)
//! are those of `std::collections::HashMap`; iteration order is insertion order
//! (the real one is unspecified; the library never depends on it outside tests).
use std::borrow::Borrow;

#[derive(Default, Clone, Copy, Debug)]
pub struct FnvBuildHasher;

/// Every map starts with room for this many entries, so the first insertions do not go through
/// the allocator's grow path.
const INITIAL_CAPACITY: usize = 8;

#[derive(Clone, Debug)]
pub struct FnvHashMap<K, V> {
    items: Vec<(K, V)>,
}

impl<K, V> Default for FnvHashMap<K, V> {
    fn default() -> Self { Self { items: Vec::with_capacity(INITIAL_CAPACITY) } }
}

/// Entry API, represented by an index instead of an enum of borrows (friendlier to CBMC's
/// pointer analysis than a sum type holding `&mut`).
pub struct Entry<'a, K, V> {
    items: &'a mut Vec<(K, V)>,
    found: usize,          // index of the key, or usize::MAX
    key: Option<K>,
}

impl<'a, K, V> Entry<'a, K, V> {
    pub fn and_modify<F: FnOnce(&mut V)>(self, f: F) -> Self {
        if self.found != usize::MAX {
            f(&mut self.items[self.found].1);
        }
        self
    }
    pub fn or_insert_with<F: FnOnce() -> V>(self, f: F) -> &'a mut V {
        let Entry { items, found, key } = self;
        if found != usize::MAX {
            &mut items[found].1
        } else {
            let k = match key { Some(k) => k, None => unreachable!() };
            items.push((k, f()));
            let last = items.len() - 1;
            &mut items[last].1
        }
    }
    pub fn or_insert(self, v: V) -> &'a mut V {
        self.or_insert_with(|| v)
    }
}

impl<K: Ord, V> FnvHashMap<K, V> {
    pub fn with_capacity_and_hasher(_capacity: usize, _hasher: FnvBuildHasher) -> Self {
        Self { items: Vec::with_capacity(INITIAL_CAPACITY) }
    }
    fn position<Q: ?Sized + Ord>(&self, k: &Q) -> Option<usize> where K: Borrow<Q> {
        let mut i = 0;
        while i < self.items.len() {
            // `Ord::cmp` instead of `==`: equality of arrays / slices of `char` compiles to a byte-wise
            // memcmp, which CBMC unrolls byte by byte; the lexicographic comparison is element-wise.
            if self.items[i].0.borrow().cmp(k) == std::cmp::Ordering::Equal { return Some(i); }
            i += 1;
        }
        None
    }
    pub fn len(&self) -> usize { self.items.len() }
    pub fn is_empty(&self) -> bool { self.items.is_empty() }
    pub fn clear(&mut self) { self.items.clear(); }
    pub fn get<Q: ?Sized + Ord>(&self, k: &Q) -> Option<&V> where K: Borrow<Q> {
        match self.position(k) { Some(i) => Some(&self.items[i].1), None => None }
    }
    pub fn get_mut<Q: ?Sized + Ord>(&mut self, k: &Q) -> Option<&mut V> where K: Borrow<Q> {
        match self.position(k) { Some(i) => Some(&mut self.items[i].1), None => None }
    }
    pub fn contains_key<Q: ?Sized + Ord>(&self, k: &Q) -> bool where K: Borrow<Q> {
        self.position(k).is_some()
    }
    pub fn insert(&mut self, k: K, v: V) -> Option<V> {
        match self.position(&k) {
            Some(i) => Some(std::mem::replace(&mut self.items[i].1, v)),
            None => { self.items.push((k, v)); None }
        }
    }
    pub fn remove<Q: ?Sized + Ord>(&mut self, k: &Q) -> Option<V> where K: Borrow<Q> {
        match self.position(k) { Some(i) => Some(self.items.remove(i).1), None => None }
    }
    pub fn entry(&mut self, k: K) -> Entry<'_, K, V> {
        match self.position(&k) {
            Some(i) => Entry { items: &mut self.items, found: i, key: None },
            None => Entry { items: &mut self.items, found: usize::MAX, key: Some(k) },
        }
    }
    pub fn iter(&self) -> impl Iterator<Item = (&K, &V)> {
        self.items.iter().map(|(k, v)| (k, v))
    }
    pub fn keys(&self) -> impl Iterator<Item = &K> { self.items.iter().map(|(k, _)| k) }
    pub fn values(&self) -> impl Iterator<Item = &V> { self.items.iter().map(|(_, v)| v) }
}
