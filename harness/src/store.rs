//! L4 (DESIGN.md §3.4): the store's mutable state. C10 (no stale state), C12 (empty query lists
//! the top rated records), id/position part of C02, C19 (trigram counters after `clear`).
//! The matcher is never run here: `Store::search` reads mutable state in exactly two places,
//! `index.prepare(query, limit)` and `top_ixs()`; both are compared with a freshly built store.
use lucid_suggest_core::lang::CharClass;
use lucid_suggest_core::tokenization::{WordShape, TextOwn};
use lucid_suggest_core::{Record, Store};
use crate::nd;

pub const MAXN: usize = 5;

/// Title number t is a concrete one-word text: 0 "a", 1 "b", 2 "ab", 3 "ba", 4 "" (no word),
/// 5 "B" (original upper case, normalised "b"), 6 "-" (a separator only: one character, no word).
pub fn title(t: u8) -> TextOwn {
    let chars: Vec<char> = match t {
        0 => vec!['a'],
        1 | 5 => vec!['b'],
        2 => vec!['a', 'b'],
        3 => vec!['b', 'a'],
        6 => vec!['-'],
        _ => Vec::with_capacity(1),
    };
    let n = if t == 6 { 0 } else { chars.len() };
    let mut words = Vec::with_capacity(1);
    if n > 0 { words.push(WordShape { offset: 0, slice: (0, n), stem: n, pos: None, fin: true }); }
    let mut classes = Vec::with_capacity(2);
    let mut i = 0;
    while i < chars.len() { classes.push(CharClass::Any); i += 1; }
    let source = if t == 5 { vec!['B'] } else { chars.clone() };
    TextOwn { words, source, chars, classes }
}

fn title_key(t: u8) -> u32 {
    // code-point order of the normalised titles: "" < "a" < "ab" < "b" < "ba"
    match t { 4 => 0, 6 => 0, 0 => 1, 2 => 2, 1 | 5 => 3, _ => 4 }
}

#[derive(Clone, Copy)]
pub struct Rec { pub t: u8, pub id: usize, pub rating: usize }

pub struct Shadow { pub recs: [Rec; MAXN], pub n: usize, pub limit: usize }

fn any_rec(t: u8) -> Rec {
    let rating = nd::any_u32() as usize;
    nd::assume(rating < (1usize << 31));
    Rec { t, id: nd::any_u32() as usize, rating }
}

/// `Store::new()` with room for MAXN records: growing a vector of large elements from capacity
/// zero trips Kani's realloc model (spurious `__rust_dealloc` layout failure), and the capacity
/// of `records` is not observable.
fn new_store() -> Store {
    let mut s = Store::new();
    s.records = Vec::with_capacity(MAXN);
    s.index.borrow_mut().verif_presize(MAXN);
    s
}

fn fresh_from(sh: &Shadow) -> Store {
    let mut s = new_store();
    s.limit = sh.limit;
    let mut i = 0;
    while i < sh.n {
        let r = sh.recs[i];
        s.add(Record { ix: 0, id: r.id, title: title(r.t), rating: r.rating });
        i += 1;
    }
    s
}

fn same_list(a: &[usize], b: &[usize]) -> bool {
    if a.len() != b.len() { return false; }
    let mut i = 0;
    while i < a.len() { if a[i] != b[i] { return false; } i += 1; }
    true
}

/// The observable state of `live` equals that of a store built from scratch with the same
/// records (in order) and limit.
fn agree(live: &Store, sh: &Shadow) {
    assert!(live.records.len() == sh.n, "C10: store does not hold the records that were added since the last clear");
    let mut i = 0;
    while i < sh.n {
        assert!(live.records[i].id == sh.recs[i].id && live.records[i].rating == sh.recs[i].rating && live.records[i].ix == i,
                "C10/C02: record at a position is not the record added there");
        i += 1;
    }
    assert!(live.limit == sh.limit, "C10: limit lost");
    let fresh = fresh_from(sh);
    let top_live = live.verif_top_ixs();
    let top_fresh = fresh.verif_top_ixs();
    let mut i = 0;
    while i < top_live.len() { assert!(top_live[i] < sh.n, "C10/C02: empty-query candidate is not a stored record"); i += 1; }
    assert!(same_list(&top_live, &top_fresh), "C10/C12: empty-query candidates differ from those of a freshly built store");
    let mut w = 0u8;
    while w < 2 {
        let q = title(w);
        let p_live = live.index.borrow_mut().prepare(&q.to_ref(), live.limit);
        let p_fresh = fresh.index.borrow_mut().prepare(&q.to_ref(), fresh.limit);
        let mut i = 0;
        while i < p_live.len() { assert!(p_live[i] < sh.n, "C10/C02: query candidate is not a stored record"); i += 1; }
        assert!(same_list(&p_live, &p_fresh), "C10: query candidates differ from those of a freshly built store");
        std::mem::forget(q); std::mem::forget(p_live); std::mem::forget(p_fresh);
        w += 1;
    }
    std::mem::forget(fresh); std::mem::forget(top_live); std::mem::forget(top_fresh);
}

/// Abstract state and the EMPTY-query candidates only (no index lookups): cheaper than `agree`.
fn agree_top(live: &Store, sh: &Shadow) {
    assert!(live.records.len() == sh.n, "C10: store does not hold the records that were added since the last clear");
    let mut i = 0;
    while i < sh.n {
        assert!(live.records[i].id == sh.recs[i].id && live.records[i].rating == sh.recs[i].rating && live.records[i].ix == i,
                "C10/C02: record at a position is not the record added there");
        i += 1;
    }
    assert!(live.limit == sh.limit, "C10: limit lost");
    let fresh = fresh_from(sh);
    let top_live = live.verif_top_ixs();
    let top_fresh = fresh.verif_top_ixs();
    let mut i = 0;
    while i < top_live.len() { assert!(top_live[i] < sh.n, "C10/C02: empty-query candidate is not a stored record"); i += 1; }
    assert!(same_list(&top_live, &top_fresh), "C10/C12: empty-query candidates differ from those of a freshly built store");
    std::mem::forget(fresh); std::mem::forget(top_live); std::mem::forget(top_fresh);
}

/// The candidates of ONE query (title number W as a one-word query) only.
fn agree_query(live: &Store, sh: &Shadow, w: u8) {
    let fresh = fresh_from(sh);
    let q = title(w);
    let p_live = live.index.borrow_mut().prepare(&q.to_ref(), live.limit);
    let p_fresh = fresh.index.borrow_mut().prepare(&q.to_ref(), fresh.limit);
    let mut i = 0;
    while i < p_live.len() { assert!(p_live[i] < sh.n, "C10/C02: query candidate is not a stored record (stale index)"); i += 1; }
    assert!(same_list(&p_live, &p_fresh), "C10: query candidates differ from those of a freshly built store");
    std::mem::forget(q); std::mem::forget(p_live); std::mem::forget(p_fresh); std::mem::forget(fresh);
}

pub fn history_top<const O1: u8, const O2: u8, const O3: u8, const O4: u8, const O5: u8>() {
    let mut live = new_store();
    let mut sh = Shadow { recs: [Rec { t: 0, id: 0, rating: 0 }; MAXN], n: 0, limit: live.limit };
    if O1 != 255 { apply(O1, &mut live, &mut sh); }
    if O2 != 255 { apply(O2, &mut live, &mut sh); }
    if O3 != 255 { apply(O3, &mut live, &mut sh); }
    if O4 != 255 { apply(O4, &mut live, &mut sh); }
    if O5 != 255 { apply(O5, &mut live, &mut sh); }
    agree_top(&live, &sh);
    crate::witness!(true, "end reachable");
    std::mem::forget(live);
}

pub fn history_query<const O1: u8, const O2: u8, const O3: u8, const O4: u8, const W: u8>() {
    let mut live = new_store();
    let mut sh = Shadow { recs: [Rec { t: 0, id: 0, rating: 0 }; MAXN], n: 0, limit: live.limit };
    if O1 != 255 { apply(O1, &mut live, &mut sh); }
    if O2 != 255 { apply(O2, &mut live, &mut sh); }
    if O3 != 255 { apply(O3, &mut live, &mut sh); }
    if O4 != 255 { apply(O4, &mut live, &mut sh); }
    agree_query(&live, &sh, W);
    crate::witness!(true, "end reachable");
    std::mem::forget(live);
}

/// One operation. Codes: 0..=4 add title t; 10 clear; 20+L limit := L; 30 empty-query lookup;
/// 31/32 lookup for "a"/"b"; 40 change markers.
fn apply(op: u8, live: &mut Store, sh: &mut Shadow) {
    match op {
        0..=6 => {
            let r = any_rec(op);
            live.add(Record { ix: 0, id: r.id, title: title(r.t), rating: r.rating });
            sh.recs[sh.n] = r;
            sh.n += 1;
        }
        10 => { live.clear(); live.index.borrow_mut().verif_presize(MAXN); sh.n = 0; }
        20..=29 => { live.limit = (op - 20) as usize; sh.limit = (op - 20) as usize; }
        30 => { let v = live.verif_top_ixs(); std::mem::forget(v); }
        31 | 32 => {
            let q = title(op - 31);
            let v = live.index.borrow_mut().prepare(&q.to_ref(), live.limit);
            std::mem::forget(v); std::mem::forget(q);
        }
        _ => { live.highlight_with(("<", ">")); }
    }
}

/// A history of up to five operations on a new store (255 = no operation), then `agree`.
pub fn history<const O1: u8, const O2: u8, const O3: u8, const O4: u8, const O5: u8>() {
    let mut live = new_store();
    let mut sh = Shadow { recs: [Rec { t: 0, id: 0, rating: 0 }; MAXN], n: 0, limit: live.limit };
    if O1 != 255 { apply(O1, &mut live, &mut sh); }
    if O2 != 255 { apply(O2, &mut live, &mut sh); }
    if O3 != 255 { apply(O3, &mut live, &mut sh); }
    if O4 != 255 { apply(O4, &mut live, &mut sh); }
    if O5 != 255 { apply(O5, &mut live, &mut sh); }
    agree(&live, &sh);
    crate::witness!(true, "end reachable");
    std::mem::forget(live);
}

/// C12 selection: N records with the given concrete titles and symbolic ratings, limit LIMIT.
pub fn top(titles: &[u8], limit: usize) {
    let n = titles.len();
    let mut live = new_store();
    live.limit = limit;
    let mut recs = [Rec { t: 0, id: 0, rating: 0 }; MAXN];
    let mut i = 0;
    while i < n {
        recs[i] = any_rec(titles[i]);
        live.add(Record { ix: 0, id: recs[i].id, title: title(recs[i].t), rating: recs[i].rating });
        i += 1;
    }
    let got = live.verif_top_ixs();
    let want = if limit < n { limit } else { n };
    assert!(got.len() == want, "C12: empty query does not list min(limit, n) records");
    let mut listed = [false; MAXN];
    let mut k = 0;
    while k < got.len() {
        let ix = got[k];
        assert!(ix < n, "C12/C02: listed position is not a stored record");
        assert!(!listed[ix], "C12/C06: record listed twice");
        listed[ix] = true;
        if k > 0 { assert!(recs[got[k - 1]].rating >= recs[ix].rating, "C12: ratings increase down the list"); }
        k += 1;
    }
    let mut r = 0;
    while r < n {
        if !listed[r] {
            let mut k = 0;
            while k < got.len() {
                let l = recs[got[k]];
                assert!(l.rating >= recs[r].rating, "C12: an omitted record has a higher rating than a listed one");
                if l.rating == recs[r].rating {
                    assert!(title_key(l.t) <= title_key(recs[r].t), "C12: among equal ratings an omitted record precedes a listed one in title order");
                }
                k += 1;
            }
        }
        r += 1;
    }
    crate::witness!(n < 2 || recs[0].rating < recs[n - 1].rating, "later record rated higher reachable");
    std::mem::forget(live); std::mem::forget(got);
}

/// End to end `Store::search` on CONCRETE titles with SYMBOLIC ratings / ids: the one place
/// where the 15-line pipeline (candidates -> score -> filter -> limit_sort -> highlight) runs.
/// Records: the given titles; query: title number QT as a one-word finished query.
pub fn search_case(titles: &[u8], qt: u8, limit: usize) {
    let n = titles.len();
    let mut live = new_store();
    live.limit = limit;
    let mut recs = [Rec { t: 0, id: 0, rating: 0 }; MAXN];
    let mut i = 0;
    while i < n {
        recs[i] = any_rec(titles[i]);
        live.add(Record { ix: 0, id: recs[i].id, title: title(recs[i].t), rating: recs[i].rating });
        i += 1;
    }
    let q = title(qt);
    let got = live.search(&q.to_ref());
    // every record whose title equals the query word is a hit on its own; titles that differ in
    // the first letter are not (one-letter / two-letter words: no fuzzy match possible)
    let mut expect = 0;
    let mut i = 0;
    while i < n { if titles[i] == qt { expect += 1; } i += 1; }
    let mut hits_equal = 0;
    let mut k = 0;
    while k < got.len() {
        let mut found = MAXN;
        let mut i = 0;
        while i < n { if recs[i].id == got[k].id { found = i; } i += 1; }
        assert!(found < n, "C02: a hit carries an id that was never added");
        if titles[found] == qt { hits_equal += 1; }
        k += 1;
    }
    assert!(got.len() <= limit, "C06: more hits than the limit");
    let want = if limit < expect { limit } else { expect };
    assert!(hits_equal == want || got.len() == limit, "C06/C13: a record whose title is the query is missing although the limit is not reached");
    crate::witness!(got.len() >= 1, "a hit is reachable");
    std::mem::forget(live); std::mem::forget(got); std::mem::forget(q);
}

macro_rules! cases {
    ($($name:ident = $body:expr;)*) => {
        $(
            #[cfg_attr(kani, kani::proof)]
            #[cfg_attr(kani, kani::stub(core::slice::sort::unstable::sort, crate::stubs::unstable_sort_model))]
            pub fn $name() { $body }
        )*
        pub const ALL: &[(&str, fn())] = &[ $( (stringify!($name), $name as fn()) ),* ];
    };
}

cases! {
    // C12 selection
    st_top_a_l1 = top(&[0], 1); st_top_ab_l0 = top(&[0, 1], 0); st_top_ab_l1 = top(&[0, 1], 1); st_top_ab_l3 = top(&[0, 1], 3);
    st_top_ba_l1 = top(&[1, 0], 1); st_top_aba_l1 = top(&[0, 1, 0], 1); st_top_aba_l2 = top(&[0, 1, 0], 2);
    st_top_b_ab_a_l1 = top(&[1, 2, 0], 1); st_top_b_ab_a_l2 = top(&[1, 2, 0], 2); st_top_4_l1 = top(&[3, 1, 2, 0], 1);
    st_top_4_l2 = top(&[3, 1, 2, 0], 2); st_top_4_l3 = top(&[3, 1, 0, 0], 3); st_top_e_a_l1 = top(&[4, 0], 1);
    st_top_5_l2 = top(&[3, 1, 2, 0, 1], 2);
    st_top_ee_l1 = top(&[4, 4], 1); st_top_e_l1 = top(&[4], 1); st_top_aa_l1 = top(&[0, 0], 1);
    st_h_e_top_e = history::<4, 30, 4, 255, 255>();
    st_search_a_qa_l1 = search_case(&[0], 0, 1); st_search_ab_qa_l2 = search_case(&[0, 1], 0, 2); st_search_aa_qa_l1 = search_case(&[0, 0], 0, 1);
    st_search_aa_qa_l2 = search_case(&[0, 0], 0, 2);
    // C10 histories (op codes in `apply`)
    st_h_add = history::<0, 255, 255, 255, 255>();
    st_h_add_add = history::<0, 1, 255, 255, 255>();
    st_h_top_add = history::<30, 0, 255, 255, 255>();
    st_h_add_top_add = history::<0, 30, 1, 255, 255>();
    st_h_add_top_add_top = history::<0, 30, 1, 30, 255>();
    st_h_add_add_top_add = history::<0, 1, 30, 0, 255>();
    st_h_add_clear = history::<0, 10, 255, 255, 255>();
    st_h_add_clear_add = history::<0, 10, 1, 255, 255>();
    st_h_add_add_clear_add = history::<0, 1, 10, 1, 255>();
    st_h_add_top_clear = history::<0, 30, 10, 255, 255>();
    st_h_add_top_clear_add = history::<0, 30, 10, 1, 255>();
    st_h_add_q_clear_add = history::<0, 31, 10, 1, 255>();
    st_h_add_add_l1_top_l2 = history::<0, 1, 21, 30, 22>();
    st_h_add_add_l2_top_l1 = history::<0, 1, 22, 30, 21>();
    st_h_add_add_l0_top_l2 = history::<0, 1, 20, 30, 22>();
    st_h_l1_add_add_top = history::<21, 0, 1, 30, 255>();
    st_h_add_add_q_q = history::<0, 1, 31, 32, 255>();
    st_h_add_q_add_q = history::<0, 31, 1, 32, 255>();
    st_h_add_mark_top_add = history::<0, 40, 30, 1, 255>();
    st_h_clear = history::<10, 255, 255, 255, 255>();
    st_h_clear_add = history::<10, 0, 255, 255, 255>();
    st_h_add_ab_ba_clear_add = history::<2, 3, 10, 0, 255>();
    st_h_add_clear_clear_add = history::<0, 10, 10, 1, 255>();
    st_h_add_clear_top_add = history::<0, 10, 30, 1, 255>();
    st_h_e_add_top = history::<4, 0, 30, 255, 255>();
    st_top_Ba_l1 = top(&[5, 0], 1); st_top_aB_l1 = top(&[0, 5], 1); st_top_Bab_l2 = top(&[5, 0, 1], 2);
    // slim variants
    st_ht_add = history_top::<0, 255, 255, 255, 255>(); st_ht_add_add = history_top::<0, 1, 255, 255, 255>();
    st_ht_add_top_add = history_top::<0, 30, 1, 255, 255>(); st_ht_top_add = history_top::<30, 0, 255, 255, 255>();
    st_ht_add_top_clear_add = history_top::<0, 30, 10, 1, 255>(); st_ht_add_add_l1_top_l2 = history_top::<0, 1, 21, 30, 22>();
    st_ht_add_add_l2_top_l1 = history_top::<0, 1, 22, 30, 21>(); st_ht_add_clear_add = history_top::<0, 10, 1, 255, 255>();
    st_ht_add_mark_top_add = history_top::<0, 40, 30, 1, 255>(); st_ht_add_top_top = history_top::<0, 30, 30, 255, 255>();
    st_hq_add_qa = history_query::<0, 255, 255, 255, 0>(); st_hq_add_add_qb = history_query::<0, 1, 255, 255, 1>();
    st_hq_add_clear_add_qa = history_query::<0, 10, 1, 255, 0>(); st_hq_add_clear_qa = history_query::<0, 10, 255, 255, 0>();
    st_hq_add_qa_add_qa = history_query::<0, 31, 0, 255, 0>(); st_hq_add_clear_add_qb = history_query::<0, 10, 1, 255, 1>();
    st_hq_ab_ba_qa = history_query::<2, 3, 255, 255, 0>();
    st_hq_add_qa_adde_qb = history_query::<0, 31, 4, 255, 1>();
    st_hq_sep_add_qa = history_query::<6, 0, 255, 255, 0>(); st_hq_add_sep_addb_qb = history_query::<0, 6, 1, 255, 1>(); st_hq_clear_sep_add_qa = history_query::<10, 6, 0, 255, 0>();
    st_hq_add_qa_addb_qb = history_query::<0, 31, 1, 255, 1>(); st_hq_addb_qb_add_qa = history_query::<1, 32, 0, 255, 0>();
    st_ht_l1_add_top_add = history_top::<21, 0, 30, 1, 255>(); st_ht_l1_addb_top_add = history_top::<21, 1, 30, 0, 255>(); st_ht_l2_add_add_top_add = history_top::<22, 0, 1, 30, 0>();
}
