//! Reference oracles over fixed-size arrays: no heap, no floats where integers do.
//! Written for obviousness, not speed.

pub const MAXW: usize = 8;

fn min3(a: u32, b: u32, c: u32) -> u32 { let m = if a < b { a } else { b }; if m < c { m } else { c } }

/// Plain Levenshtein distance (unit costs).
pub fn levenshtein(a: &[char], b: &[char]) -> u32 {
    let n = a.len();
    let m = b.len();
    let mut d = [[0u32; MAXW + 1]; MAXW + 1];
    let mut i = 0;
    while i <= n { d[i][0] = i as u32; i += 1; }
    let mut j = 0;
    while j <= m { d[0][j] = j as u32; j += 1; }
    let mut i = 1;
    while i <= n {
        let mut j = 1;
        while j <= m {
            let sub = if a[i - 1] == b[j - 1] { 0 } else { 1 };
            d[i][j] = min3(d[i - 1][j] + 1, d[i][j - 1] + 1, d[i - 1][j - 1] + sub);
            j += 1;
        }
        i += 1;
    }
    d[n][m]
}

/// Unrestricted Damerau-Levenshtein distance (unit costs, transposition of adjacent characters
/// with arbitrary insertions/deletions in between), Lowrance-Wagner formulation.
pub fn damerau_unrestricted(a: &[char], b: &[char]) -> u32 {
    let n = a.len();
    let m = b.len();
    let inf = (n + m) as u32;
    // h[i+1][j+1] = distance of a[..i], b[..j]; row/col 0 hold `inf`
    let mut h = [[0u32; MAXW + 2]; MAXW + 2];
    h[0][0] = inf;
    let mut i = 0;
    while i <= n { h[i + 1][0] = inf; h[i + 1][1] = i as u32; i += 1; }
    let mut j = 0;
    while j <= m { h[0][j + 1] = inf; h[1][j + 1] = j as u32; j += 1; }
    let mut i = 1;
    while i <= n {
        let mut db = 0usize;
        let mut j = 1;
        while j <= m {
            // i1 = last row k < i with a[k-1] == b[j-1]
            let mut i1 = 0usize;
            let mut k = 1;
            while k < i { if a[k - 1] == b[j - 1] { i1 = k; } k += 1; }
            let j1 = db;
            let cost = if a[i - 1] == b[j - 1] { db = j; 0 } else { 1 };
            let sub = h[i][j] + cost;
            let ins = h[i + 1][j] + 1;
            let del = h[i][j + 1] + 1;
            let tr = h[i1][j1] + ((i - i1 - 1) + 1 + (j - j1 - 1)) as u32;
            let mut best = min3(sub, ins, del);
            if tr < best { best = tr; }
            h[i + 1][j + 1] = best;
            j += 1;
        }
        i += 1;
    }
    h[n + 1][m + 1]
}

pub fn slices_equal(a: &[char], b: &[char]) -> bool {
    if a.len() != b.len() { return false; }
    let mut i = 0;
    while i < a.len() { if a[i] != b[i] { return false; } i += 1; }
    true
}
