//! C08 at the scorer level: the documented ranking priorities as comparisons of two hits whose
//! match vectors are GIVEN (what the matcher reports for the scenario: full word, prefix, typo -
//! shown by the WM lemmas for words up to 3 letters) while word lengths, typed prefix length,
//! tail length and both ratings are symbolic. Real score_* functions and real compare_hits.
use std::cmp::Ordering;
use lucid_suggest_core::lang::{CharClass, PartOfSpeech};
use lucid_suggest_core::tokenization::{WordShape, TextRef};
use lucid_suggest_core::verif_hooks::{self as vh, Hit, WordMatch, ScoreType};
use crate::nd;

const MAXLEN: usize = 40;

/// A title word; its stem length is an ARBITRARY value in 1..=len (the ranking rules must not
/// depend on where a stemmer cuts the word).
fn ws(offset: usize, lo: usize, hi: usize, func: bool) -> WordShape {
    let stem = nd::in_range(1, hi - lo);
    WordShape { offset, slice: (lo, hi), stem, pos: if func { Some(PartOfSpeech::Article) } else { None }, fin: true }
}

fn wm(w: &WordShape, match_len: usize, typos: f64, func: bool, fin: bool) -> WordMatch {
    WordMatch { offset: w.offset, slice: w.slice, subslice: (0, match_len), typos, func, fin }
}

/// Fills the nine components exactly as `score()` does after matching.
fn fill(hit: &mut Hit) {
    hit.scores[ScoreType::Chars] = vh::score_chars_up(hit);
    hit.scores[ScoreType::Words] = vh::score_words_up(hit);
    hit.scores[ScoreType::Tails] = vh::score_tails_down(hit);
    hit.scores[ScoreType::Trans] = vh::score_trans_down(hit);
    hit.scores[ScoreType::Fin] = vh::score_fin_up(hit);
    hit.scores[ScoreType::Offset] = vh::score_offset_down(hit);
    hit.scores[ScoreType::Rating] = vh::score_rating_up(hit);
    hit.scores[ScoreType::WordLen] = vh::score_word_len_down(hit);
    hit.scores[ScoreType::CharLen] = vh::score_char_len_down(hit);
}

fn any_rating() -> usize { let r = nd::any_u32() as usize; nd::assume(r < (1usize << 31)); r }

static NOCHARS: [char; 0] = [];
static NOCLASSES: [CharClass; 0] = [];

fn hit<'a>(words: &'a [WordShape], matches: Vec<WordMatch>, rating: usize) -> Hit<'a> {
    let title = TextRef { words, source: &NOCHARS, chars: &NOCHARS, classes: &NOCLASSES };
    let mut h = Hit { id: 0, title, rating, rmatches: matches, qmatches: Vec::with_capacity(1), scores: Default::default() };
    fill(&mut h);
    h
}

fn outranks(a: &Hit, b: &Hit) {
    assert!(vh::compare_hits(a, b) == Ordering::Less, "C08: documented ranking priority violated (first hit must outrank the second)");
    assert!(vh::compare_hits(b, a) == Ordering::Greater, "C08: comparator not antisymmetric on this pair");
}

/// Rule 1: an exact title word outranks the same word matched with a typo, whatever the ratings.
pub fn exact_vs_typo() {
    let n = nd::in_range(3, MAXLEN);
    let m = nd::in_range(n - 1, n + 1);          // matched length on the typo side
    let k = nd::in_range(1, 2);                  // typos 0.5 or 1.0
    let typos = k as f64 * 0.5;
    nd::assume(typos <= 0.21 * (if m > n { m } else { n }) as f64);
    let wl = nd::in_range(m, MAXLEN + 2);        // the typo title word is at least as long as its matched part
    let (wa, wb) = ([ws(0, 0, n, false)], [ws(0, 0, wl, false)]);
    let mut va = Vec::with_capacity(1); va.push(wm(&wa[0], n, 0.0, false, true));
    let mut vb = Vec::with_capacity(1); vb.push(wm(&wb[0], m, typos, false, nd::any_bool()));
    let (a, b) = (hit(&wa, va, any_rating()), hit(&wb, vb, any_rating()));
    outranks(&a, &b);
    crate::witness!(a.rating < b.rating, "lower rated exact match still wins");
    std::mem::forget(a); std::mem::forget(b);
}

/// Rule 2: a title containing both query words outranks one containing only one.
pub fn both_vs_one() {
    let (lu, lv, lx) = (nd::in_range(1, MAXLEN), nd::in_range(1, MAXLEN), nd::in_range(1, MAXLEN));
    let wa = [ws(0, 0, lu, false), ws(1, lu + 1, lu + 1 + lv, false)];
    let wb = [ws(0, 0, lu, false), ws(1, lu + 1, lu + 1 + lx, false)];
    let mut va = Vec::with_capacity(2); va.push(wm(&wa[0], lu, 0.0, false, true)); va.push(wm(&wa[1], lv, 0.0, false, true));
    let mut vb = Vec::with_capacity(1); vb.push(wm(&wb[0], lu, 0.0, false, true));
    let (a, b) = (hit(&wa, va, any_rating()), hit(&wb, vb, any_rating()));
    outranks(&a, &b);
    crate::witness!(a.rating < b.rating, "lower rated two-word match still wins");
    std::mem::forget(a); std::mem::forget(b);
}

/// Rule 3: the title 'u' outranks 'u' + extra trailing letters, for the full word and any typed prefix.
pub fn word_vs_longer_word() {
    let n = nd::in_range(1, MAXLEN);
    let k = nd::in_range(1, n);                  // typed prefix length
    let t = nd::in_range(1, MAXLEN);             // extra trailing letters
    let qfin = nd::any_bool();
    let (wa, wb) = ([ws(0, 0, n, false)], [ws(0, 0, n + t, false)]);
    let mut va = Vec::with_capacity(1); va.push(wm(&wa[0], k, 0.0, false, qfin || k == n));
    let mut vb = Vec::with_capacity(1); vb.push(wm(&wb[0], k, 0.0, false, qfin));
    let (a, b) = (hit(&wa, va, any_rating()), hit(&wb, vb, any_rating()));
    outranks(&a, &b);
    crate::witness!(a.rating < b.rating && k < n, "lower rated shorter title still wins for a proper prefix");
    std::mem::forget(a); std::mem::forget(b);
}

/// Rule 4: 'u v x' outranks 'u x v' for the query 'u v'.
pub fn adjacent_vs_separated() {
    let (lu, lv, lx) = (nd::in_range(1, MAXLEN), nd::in_range(1, MAXLEN), nd::in_range(1, MAXLEN));
    let wa = [ws(0, 0, lu, false), ws(1, lu + 1, lu + 1 + lv, false), ws(2, lu + lv + 2, lu + lv + 2 + lx, false)];
    let wb = [ws(0, 0, lu, false), ws(1, lu + 1, lu + 1 + lx, false), ws(2, lu + lx + 2, lu + lx + 2 + lv, false)];
    let mut va = Vec::with_capacity(2); va.push(wm(&wa[0], lu, 0.0, false, true)); va.push(wm(&wa[1], lv, 0.0, false, true));
    let mut vb = Vec::with_capacity(2); vb.push(wm(&wb[0], lu, 0.0, false, true)); vb.push(wm(&wb[2], lv, 0.0, false, true));
    let (a, b) = (hit(&wa, va, any_rating()), hit(&wb, vb, any_rating()));
    outranks(&a, &b);
    crate::witness!(a.rating < b.rating, "lower rated adjacent match still wins");
    std::mem::forget(a); std::mem::forget(b);
}

/// Rule 5: 'u x' outranks 'x u' for the query 'u'.
pub fn first_vs_second() {
    let (lu, lx) = (nd::in_range(1, MAXLEN), nd::in_range(1, MAXLEN));
    let k = nd::in_range(1, lu);
    let qfin = nd::any_bool();
    let wa = [ws(0, 0, lu, false), ws(1, lu + 1, lu + 1 + lx, false)];
    let wb = [ws(0, 0, lx, false), ws(1, lx + 1, lx + 1 + lu, false)];
    let fin = qfin || k == lu;
    let mut va = Vec::with_capacity(1); va.push(wm(&wa[0], k, 0.0, false, fin));
    let mut vb = Vec::with_capacity(1); vb.push(wm(&wb[1], k, 0.0, false, fin));
    let (a, b) = (hit(&wa, va, any_rating()), hit(&wb, vb, any_rating()));
    outranks(&a, &b);
    crate::witness!(a.rating < b.rating, "lower rated earlier match still wins");
    std::mem::forget(a); std::mem::forget(b);
}

/// Rule 6: among identical titles the higher rating comes first; at equal rating 'u' outranks 'u x'.
pub fn rating_then_length() {
    let (lu, lx) = (nd::in_range(1, MAXLEN), nd::in_range(1, MAXLEN));
    let k = nd::in_range(1, lu);
    let fin = nd::any_bool() || k == lu;
    let w1 = [ws(0, 0, lu, false)];
    let w2 = [ws(0, 0, lu, false), ws(1, lu + 1, lu + 1 + lx, false)];
    let (r1, r2) = (any_rating(), any_rating());
    nd::assume(r1 > r2);
    let mut v1 = Vec::with_capacity(1); v1.push(wm(&w1[0], k, 0.0, false, fin));
    let mut v2 = Vec::with_capacity(1); v2.push(wm(&w1[0], k, 0.0, false, fin));
    let (a, b) = (hit(&w1, v1, r1), hit(&w1, v2, r2));
    outranks(&a, &b);
    let mut v3 = Vec::with_capacity(1); v3.push(wm(&w1[0], k, 0.0, false, fin));
    let mut v4 = Vec::with_capacity(1); v4.push(wm(&w2[0], k, 0.0, false, fin));
    let (c, d) = (hit(&w1, v3, r1), hit(&w2, v4, r1));
    outranks(&c, &d);
    crate::witness!(k < lu, "proper prefix reachable");
    std::mem::forget(a); std::mem::forget(b); std::mem::forget(c); std::mem::forget(d);
}

/// Rule 7: for a function-word query f, a title with a content word starting with f outranks a
/// title containing f itself, whatever the ratings.
pub fn content_vs_function_word() {
    let lf = nd::in_range(1, MAXLEN);
    let suffix = nd::in_range(1, MAXLEN);
    let lx = nd::in_range(1, MAXLEN);
    let qfin = nd::any_bool();
    let wa = [ws(0, 0, lf + suffix, false)];                                       // content word f+suffix
    let wb = [ws(0, 0, lf, true), ws(1, lf + 1, lf + 1 + lx, false)];              // 'f x', f a function word
    let mut va = Vec::with_capacity(1); va.push(wm(&wa[0], lf, 0.0, false, qfin));
    let mut vb = Vec::with_capacity(1); vb.push(wm(&wb[0], lf, 0.0, true, true));
    let (a, b) = (hit(&wa, va, any_rating()), hit(&wb, vb, any_rating()));
    outranks(&a, &b);
    crate::witness!(a.rating < b.rating, "lower rated content word still wins");
    std::mem::forget(a); std::mem::forget(b);
}

macro_rules! cases {
    ($($name:ident = $body:expr;)*) => {
        $(
            #[cfg_attr(kani, kani::proof)]
            pub fn $name() { $body }
        )*
        pub const ALL: &[(&str, fn())] = &[ $( (stringify!($name), $name as fn()) ),* ];
    };
}

cases! {
    rank_exact_vs_typo = exact_vs_typo(); rank_both_vs_one = both_vs_one(); rank_word_vs_longer = word_vs_longer_word();
    rank_adjacent = adjacent_vs_separated(); rank_first_vs_second = first_vs_second(); rank_rating_then_length = rating_then_length();
    rank_content_vs_function = content_vs_function_word();
}
