#![allow(dead_code, unused_imports, unused_variables, static_mut_refs, unused_macros)]
//! Proof harnesses for lucid-suggest-core (see /verif/DESIGN.md).
//! Compiled two ways from the same source:
//!  * `cargo kani` (cfg(kani)): every instance is a `#[kani::proof]` harness;
//!  * natively (the `replay` binary): every instance is a plain function run on the concrete
//!    values of a solver counterexample.
pub mod nd;
pub mod stubs;

/// Instantiates generic harness bodies for concrete shapes.
/// `[flags]` select the stub set: stub_sort_char, stub_sort_gram.
#[macro_export]
macro_rules! inst {
    ($flags:tt $($name:ident = $f:ident < $($n:literal),* >;)*) => {
        $( $crate::inst!(@one $flags $name, $f, $($n),*); )*
        pub const ALL: &[(&str, fn())] = &[ $( (stringify!($name), $name as fn()) ),* ];
    };
    (@one [] $name:ident, $f:ident, $($n:literal),*) => {
        #[cfg_attr(kani, kani::proof)]
        #[cfg_attr(kani, kani::stub(core::slice::sort::unstable::sort, $crate::stubs::unstable_sort_model))]
        pub fn $name() { $f::<$($n),*>() }
    };
    (@one [stub_sort_char] $name:ident, $f:ident, $($n:literal),*) => {
        #[cfg_attr(kani, kani::proof)]
        #[cfg_attr(kani, kani::stub(core::slice::sort::unstable::sort, $crate::stubs::unstable_sort_model))]
        pub fn $name() { $f::<$($n),*>() }
    };
}

pub mod build;
pub mod txt;
pub mod model;
pub mod jaccard;
pub mod dl;
pub mod probe;
pub mod probe2;
pub mod ls;
pub mod idx;
pub mod store;
pub mod tm;
pub mod wm;
pub mod split;
pub mod rank;
pub mod reg;
pub mod store_gen;
pub mod hl;
pub mod tok;
pub mod norm;
pub mod tmo;


pub fn registry() -> Vec<(&'static str, fn())> {
    let mut v = Vec::new();
    v.extend_from_slice(jaccard::ALL);
    v.extend_from_slice(dl::ALL);
    v.extend_from_slice(probe::ALL);
    v.extend_from_slice(probe2::ALL);
    v.extend_from_slice(ls::ALL);
    v.extend_from_slice(ls::ALL2);
    v.extend_from_slice(idx::ALL);
    v.extend_from_slice(store::ALL);
    v.extend_from_slice(tm::ALL);
    v.extend_from_slice(wm::ALL);
    v.extend_from_slice(split::ALL);
    v.extend_from_slice(rank::ALL);
    v.extend_from_slice(reg::ALL);
    v.extend_from_slice(store_gen::ALL);
    v.extend_from_slice(hl::ALL);
    v.extend_from_slice(tok::ALL);
    v.extend_from_slice(norm::ALL);
    v.extend_from_slice(tmo::ALL);
    v
}
