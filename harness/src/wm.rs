//! L1: the REAL word matcher (`word_match` with `length_check`, `jaccard_check`, the distance
//! matrix and the prefix scan) on two single words of fixed lengths and fixed stem lengths, all
//! characters / classes / part-of-speech flags symbolic.
//! Serves C01 (no panic), C03 (prefix), C04 (one typo), C05 (span bound, exact prefix), C13 (equal).
use lucid_suggest_core::lang::CharClass;
use lucid_suggest_core::tokenization::{Word, WordView};
use lucid_suggest_core::verif_hooks::{self as vh, WordMatch};
use crate::{nd, build};
use crate::txt::{Txt, any_txt_stems};

fn setcap(n: usize) { unsafe { vh::DAMLEV_CAPACITY = n; } }

/// Contract C_wm of a successful match (used as the oracle contract at the text level).
pub fn check_contract(r: &WordView, q: &WordView, rm: &WordMatch, qm: &WordMatch) {
    let rs = rm.subslice.1;
    let qs = qm.subslice.1;
    assert!(rm.subslice.0 == 0 && qm.subslice.0 == 0, "C09: match does not start at the word start");
    assert!(rm.offset == r.offset && rm.slice == r.slice && qm.offset == q.offset && qm.slice == q.slice, "match not aligned with its words");
    assert!(rs >= 1 && rs <= r.len(), "C09: matched part of the title word empty or longer than the word");
    assert!(qs >= q.stem && qs <= q.len(), "matched part of the query word shorter than its stem or longer than the word");
    assert!(rs <= qs + 1 && qs <= rs + 1, "C05: matched lengths differ by more than one");
    assert!(rm.typos == qm.typos && rm.typos >= 0.0, "typo counts differ or negative");
    let k = rm.typos * 2.0;
    assert!(k == (k as u32) as f64, "typo count not a multiple of 0.5");
    let longest = if rs > qs { rs } else { qs };
    assert!(rm.typos <= 0.21 * longest as f64, "typo count above the relative threshold");
    assert!(rm.match_len() >= 2 * (rm.typos.ceil() as usize), "C01: typo penalty exceeds the matched length (score would wrap)");
    assert!(rm.fin == (q.fin || rs == r.len()) && qm.fin == rm.fin, "fin flag inconsistent");
    assert!(rm.func == r.is_function() && qm.func == q.is_function(), "function-word flag inconsistent");
    if q.fin { assert!(rs >= r.stem, "finished query matched below the title word's stem"); }
}

/// Any two words: whatever `word_match` returns satisfies the contract (and nothing panics).
pub fn contract<const NR: usize, const NQ: usize, const SR: usize, const SQ: usize, const QFIN: bool>() {
    setcap(if NR > NQ { NR } else { NQ });
    let r = any_txt_stems::<NR, 1>([(0, NR)], [SR], true);
    let q = any_txt_stems::<NQ, 1>([(0, NQ)], [SQ], QFIN);
    let (rt, qt) = (r.text(), q.text());
    let (rv, qv) = (rt.view(0), qt.view(0));
    let m = vh::word_match(&rv, &qv);
    if let Some((rm, qm)) = &m { check_contract(&rv, &qv, rm, qm); }
    crate::witness!(m.is_some() && m.as_ref().unwrap().0.typos > 0.0 || NR < 3 || NQ < 3, "a fuzzy match is reachable (shapes >= 3)");
    std::mem::forget(m);
}

/// C03 / C05: the query word is the K-letter prefix of the title word (same characters and
/// classes), unfinished - or finished when K == NR. The matcher must report exactly that prefix.
pub fn prefix<const NR: usize, const K: usize, const SR: usize, const SQ: usize, const QFIN: bool>() {
    setcap(NR);
    let r = any_txt_stems::<NR, 1>([(0, NR)], [SR], true);
    let mut q = any_txt_stems::<K, 1>([(0, K)], [SQ], QFIN);
    let mut i = 0;
    while i < K { q.chars[i] = r.chars[i]; q.classes[i] = r.classes[i]; i += 1; }
    let (rt, qt) = (r.text(), q.text());
    let (rv, qv) = (rt.view(0), qt.view(0));
    let m = vh::word_match(&rv, &qv);
    match &m {
        None => assert!(false, "C03: a prefix of a title word does not match it"),
        Some((rm, qm)) => {
            assert!(rm.subslice == (0, K) && qm.subslice == (0, K), "C05: exact prefix is not highlighted exactly");
            assert!(rm.typos == 0.0, "C03: exact prefix reported with typos");
        }
    }
    crate::witness!(true, "end reachable");
    std::mem::forget(m);
}

fn distinct_at_least_3<const N: usize>(c: &[char; N]) -> bool {
    let mut d = 0;
    let mut i = 0;
    while i < N {
        let mut first = true;
        let mut j = 0;
        while j < i { if c[j] == c[i] { first = false; } j += 1; }
        if first { d += 1; }
        i += 1;
    }
    d >= 3
}

fn letter(c: CharClass) -> bool { matches!(c, CharClass::Any | CharClass::Consonant | CharClass::Vowel) }

/// C04: the query is the title word (N >= 5 letters, >= 3 distinct) with ONE edit at a symbolic
/// position: KIND 0 substitution by a different letter, 1 insertion, 2 deletion, 3 adjacent
/// transposition. Finished query. The matcher must still match.
pub fn typo<const N: usize, const NQ: usize, const KIND: u8, const SR: usize, const SQ: usize>() {
    setcap(if N > NQ { N } else { NQ });
    let r = any_txt_stems::<N, 1>([(0, N)], [SR], true);
    nd::assume(distinct_at_least_3(&r.chars));
    let mut i = 0;
    while i < N { nd::assume(letter(r.classes[i])); i += 1; }
    let mut q = any_txt_stems::<NQ, 1>([(0, NQ)], [SQ], true);
    match KIND {
        0 => { // substitution
            let p = nd::below(N);
            let mut i = 0;
            while i < N {
                if i == p { nd::assume(q.chars[i] != r.chars[i] && letter(q.classes[i])); }
                else { q.chars[i] = r.chars[i]; q.classes[i] = r.classes[i]; }
                i += 1;
            }
        }
        1 => { // insertion of q.chars[p]
            let p = nd::below(NQ);
            let mut i = 0;
            while i < NQ {
                if i < p { q.chars[i] = r.chars[i]; q.classes[i] = r.classes[i]; }
                else if i == p { nd::assume(letter(q.classes[i])); }
                else { q.chars[i] = r.chars[i - 1]; q.classes[i] = r.classes[i - 1]; }
                i += 1;
            }
        }
        2 => { // deletion of r.chars[p]
            let p = nd::below(N);
            let mut i = 0;
            while i < NQ {
                if i < p { q.chars[i] = r.chars[i]; q.classes[i] = r.classes[i]; }
                else { q.chars[i] = r.chars[i + 1]; q.classes[i] = r.classes[i + 1]; }
                i += 1;
            }
        }
        _ => { // adjacent transposition at p, p+1
            let p = nd::below(N - 1);
            let mut i = 0;
            while i < N {
                let src = if i == p { p + 1 } else if i == p + 1 { p } else { i };
                q.chars[i] = r.chars[src]; q.classes[i] = r.classes[src];
                i += 1;
            }
        }
    }
    let (rt, qt) = (r.text(), q.text());
    let (rv, qv) = (rt.view(0), qt.view(0));
    let m = vh::word_match(&rv, &qv);
    assert!(m.is_some(), "C04: a single typo in a word of five or more letters is not matched");
    crate::witness!(m.is_some() && m.as_ref().unwrap().0.typos > 0.0, "matched with a non-zero typo count");
    std::mem::forget(m);
}

/// C13: a finished exact copy matches in full with zero typos.
pub fn equal<const N: usize, const SR: usize, const SQ: usize>() {
    setcap(N);
    let r = any_txt_stems::<N, 1>([(0, N)], [SR], true);
    let mut q = any_txt_stems::<N, 1>([(0, N)], [SQ], true);
    let mut i = 0;
    while i < N { q.chars[i] = r.chars[i]; q.classes[i] = r.classes[i]; i += 1; }
    let (rt, qt) = (r.text(), q.text());
    let (rv, qv) = (rt.view(0), qt.view(0));
    let m = vh::word_match(&rv, &qv);
    match &m {
        None => assert!(false, "C13: a word does not match its exact copy"),
        Some((rm, qm)) => assert!(rm.subslice == (0, N) && qm.subslice == (0, N) && rm.typos == 0.0 && rm.fin, "C13: exact copy not matched in full"),
    }
    crate::witness!(true, "end reachable");
    std::mem::forget(m);
}

/// The two pre-filters of the matcher on longer words than the full matcher can be run on:
/// for a K-letter prefix (unfinished, or finished when K == NR) of an NR-letter title word the
/// real `length_check` and `jaccard_check` both pass. Stems do not enter these two functions.
pub fn gates_prefix<const NR: usize, const K: usize, const QFIN: bool>() {
    let r = any_txt_stems::<NR, 1>([(0, NR)], [NR], true);
    let mut q = any_txt_stems::<K, 1>([(0, K)], [K], QFIN);
    let mut i = 0;
    while i < K { q.chars[i] = r.chars[i]; q.classes[i] = r.classes[i]; i += 1; }
    let (rt, qt) = (r.text(), q.text());
    let (rv, qv) = (rt.view(0), qt.view(0));
    assert!(vh::length_check(&rv, &qv), "C03/C13: length pre-filter rejects a prefix / an exact copy of the title word");
    assert!(vh::jaccard_check(&rv, &qv), "C03/C13: Jaccard pre-filter rejects a prefix / an exact copy of the title word");
    crate::witness!(true, "end reachable");
}

/// Builds the query word as ONE edit of the title word `r` (KIND 0 substitution by a different
/// letter, 1 insertion, 2 deletion, 3 adjacent transposition) at a symbolic position.
pub fn apply_edit<const N: usize, const NQ: usize, const KIND: u8>(r: &Txt<N, 1>, q: &mut Txt<NQ, 1>) {
    match KIND {
        0 => {
            let p = nd::below(N);
            let mut i = 0;
            while i < N {
                if i == p { nd::assume(q.chars[i] != r.chars[i] && letter(q.classes[i])); }
                else { q.chars[i] = r.chars[i]; q.classes[i] = r.classes[i]; }
                i += 1;
            }
        }
        1 => {
            let p = nd::below(NQ);
            let mut i = 0;
            while i < NQ {
                if i < p { q.chars[i] = r.chars[i]; q.classes[i] = r.classes[i]; }
                else if i == p { nd::assume(letter(q.classes[i])); }
                else { q.chars[i] = r.chars[i - 1]; q.classes[i] = r.classes[i - 1]; }
                i += 1;
            }
        }
        2 => {
            let p = nd::below(N);
            let mut i = 0;
            while i < NQ {
                if i < p { q.chars[i] = r.chars[i]; q.classes[i] = r.classes[i]; }
                else { q.chars[i] = r.chars[i + 1]; q.classes[i] = r.classes[i + 1]; }
                i += 1;
            }
        }
        _ => {
            let p = nd::below(N - 1);
            let mut i = 0;
            while i < N {
                let src = if i == p { p + 1 } else if i == p + 1 { p } else { i };
                q.chars[i] = r.chars[src]; q.classes[i] = r.classes[src];
                i += 1;
            }
        }
    }
}

/// C04 at the pre-filter level: for a title word of N >= 5 letters (>= 3 distinct) and a finished
/// query that is ONE edit of it, the real `length_check` and `jaccard_check` both accept.
pub fn gates_typo<const N: usize, const NQ: usize, const KIND: u8>() {
    let r = any_txt_stems::<N, 1>([(0, N)], [N], true);
    nd::assume(distinct_at_least_3(&r.chars));
    let mut i = 0;
    while i < N { nd::assume(letter(r.classes[i])); i += 1; }
    let mut q = any_txt_stems::<NQ, 1>([(0, NQ)], [NQ], true);
    apply_edit::<N, NQ, KIND>(&r, &mut q);
    let (rt, qt) = (r.text(), q.text());
    let (rv, qv) = (rt.view(0), qt.view(0));
    assert!(vh::length_check(&rv, &qv), "C04: length pre-filter rejects a single-typo query");
    assert!(vh::jaccard_check(&rv, &qv), "C04: Jaccard pre-filter rejects a single-typo query");
    crate::witness!(true, "end reachable");
}

/// C04 at the distance level: the weighted distance between a word of N letters and ONE edit of
/// it is at most 1 and within the matcher's relative threshold 0.21 (N >= 5), whatever the classes.
pub fn dist_typo<const N: usize, const NQ: usize, const KIND: u8>() {
    use lucid_suggest_core::verif_hooks::DamerauLevenshtein;
    let r = any_txt_stems::<N, 1>([(0, N)], [N], true);
    let mut i = 0;
    while i < N { nd::assume(letter(r.classes[i])); i += 1; }
    let mut q = any_txt_stems::<NQ, 1>([(0, NQ)], [NQ], true);
    apply_edit::<N, NQ, KIND>(&r, &mut q);
    let (rt, qt) = (r.text(), q.text());
    let (rv, qv) = (rt.view(0), qt.view(0));
    let dl = DamerauLevenshtein::verif_with_capacity(if N > NQ { N } else { NQ });
    let d = dl.distance(&qv, &rv);
    let longest = if N > NQ { N } else { NQ };
    assert!(d <= 1.0, "C04/C16: a single edit costs more than 1");
    assert!(d / longest as f64 <= 0.21, "C04: a single edit in a word of five or more letters exceeds the relative typo threshold");
    // the cell the matcher reads for the full pair is this distance
    assert!(dl.dists.borrow().get(NQ + 1, N + 1) == d, "C16: matrix cell of the full pair differs from the returned distance");
    crate::witness!(d > 0.0, "a non-zero distance is reachable");
    std::mem::forget(dl);
}

/// C14 at the kernel level, title side: two adjacent title words a (LA letters) and b (LB letters)
/// separated by ONE separator character; the query runs them together (stem = length, finished).
/// Real `WordView::join`, `length_check`, `jaccard_check`, distance, and `WordMatch::split`.
pub fn join_title<const N: usize, const LA: usize, const LB: usize, const NQ: usize>() {
    use lucid_suggest_core::verif_hooks::DamerauLevenshtein;
    use lucid_suggest_core::lang::CharClass;
    let mut t = any_txt_stems::<N, 2>([(0, LA), (LA + 1, N)], [LA, LB], true);
    t.classes[LA] = CharClass::NotAlpha;                       // what set_char_classes gives a separator
    let mut q = any_txt_stems::<NQ, 1>([(0, NQ)], [NQ], true);
    let mut i = 0;
    while i < LA { q.chars[i] = t.chars[i]; q.classes[i] = t.classes[i]; i += 1; }
    let mut i = 0;
    while i < LB { q.chars[LA + i] = t.chars[LA + 1 + i]; q.classes[LA + i] = t.classes[LA + 1 + i]; i += 1; }
    let (tt, qt) = (t.text(), q.text());
    let (v1, v2, qv) = (tt.view(0), tt.view(1), qt.view(0));
    let joined = v1.join(&v2);
    assert!(joined.len() == N && joined.stem == N && joined.fin, "C14: joined view has the wrong extent / stem / fin");
    assert!(vh::length_check(&joined, &qv), "C14: length pre-filter rejects the run-together query");
    assert!(vh::jaccard_check(&joined, &qv), "C14: Jaccard pre-filter rejects the run-together query");
    let dl = DamerauLevenshtein::verif_with_capacity(N);
    let d = dl.distance(&qv, &joined);
    assert!(d <= 0.5, "C14: dropping one separator costs more than 0.5");
    assert!(d / (N as f64) <= 0.21, "C14: run-together spelling exceeds the relative typo threshold");
    let (rm, _qm) = WordMatch::new_pair(&joined, &qv, N, NQ, d);
    match rm.split(&v1, &v2) {
        None => assert!(false, "C14: the joined match is not split over the two title words"),
        Some((p1, p2)) => assert!(p1.subslice == (0, LA) && p2.subslice == (0, LB) && p1.offset == 0 && p2.offset == 1, "C14/C09: split parts do not cover the two words"),
    }
    crate::witness!(d > 0.0, "a non-zero distance is reachable");
    std::mem::forget(dl);
}

/// C14 at the kernel level, query side: a title word of N letters, the query spells it as two
/// words split at S with one separator in between.
pub fn join_query<const N: usize, const S: usize, const NQ: usize>() {
    use lucid_suggest_core::verif_hooks::DamerauLevenshtein;
    use lucid_suggest_core::lang::CharClass;
    let r = any_txt_stems::<N, 1>([(0, N)], [N], true);
    let mut q = any_txt_stems::<NQ, 2>([(0, S), (S + 1, NQ)], [S, N - S], true);
    q.classes[S] = CharClass::NotAlpha;
    let mut i = 0;
    while i < S { q.chars[i] = r.chars[i]; q.classes[i] = r.classes[i]; i += 1; }
    let mut i = S;
    while i < N { q.chars[i + 1] = r.chars[i]; q.classes[i + 1] = r.classes[i]; i += 1; }
    let (rt, qt) = (r.text(), q.text());
    let (rv, q1, q2) = (rt.view(0), qt.view(0), qt.view(1));
    let joined = q1.join(&q2);
    assert!(joined.len() == NQ && joined.stem == NQ, "C14: joined query view has the wrong extent / stem");
    assert!(vh::length_check(&rv, &joined), "C14: length pre-filter rejects the split spelling");
    assert!(vh::jaccard_check(&rv, &joined), "C14: Jaccard pre-filter rejects the split spelling");
    let dl = DamerauLevenshtein::verif_with_capacity(NQ);
    let d = dl.distance(&joined, &rv);
    assert!(d <= 0.5, "C14: one extra separator costs more than 0.5");
    assert!(d / (NQ as f64) <= 0.21, "C14: split spelling exceeds the relative typo threshold");
    let (_rm, qm) = WordMatch::new_pair(&rv, &joined, N, NQ, d);
    match qm.split(&q1, &q2) {
        None => assert!(false, "C14: the joined query match is not split over the two query words"),
        Some((p1, p2)) => assert!(p1.subslice == (0, S) && p2.subslice == (0, N - S), "C14: split parts do not cover the two query words"),
    }
    crate::witness!(d > 0.0, "a non-zero distance is reachable");
    std::mem::forget(dl);
}

fn same_pair(a: &Option<(WordMatch, WordMatch)>, b: &Option<(WordMatch, WordMatch)>) -> bool {
    match (a, b) {
        (None, None) => true,
        (Some((ra, qa)), Some((rb, qb))) => ra.subslice == rb.subslice && qa.subslice == qb.subslice && ra.typos == rb.typos
            && ra.fin == rb.fin && ra.func == rb.func && qa.func == qb.func && ra.offset == rb.offset && qa.offset == qb.offset,
        _ => false,
    }
}

/// C06 / C10: the matcher's verdict for a pair of words does not depend on what was matched
/// before (thread-local distance matrix and Jaccard buffers are reused): pair A first thing,
/// then ANOTHER pair B, then A again.
pub fn local<const N: usize, const S: usize>() {
    setcap(N);
    let ra = any_txt_stems::<N, 1>([(0, N)], [S], true);
    let qa = any_txt_stems::<N, 1>([(0, N)], [S], true);
    let rb = any_txt_stems::<N, 1>([(0, N)], [S], true);
    let qb = any_txt_stems::<N, 1>([(0, N)], [S], true);
    let (rat, qat, rbt, qbt) = (ra.text(), qa.text(), rb.text(), qb.text());
    let m1 = vh::word_match(&rat.view(0), &qat.view(0));
    let mb = vh::word_match(&rbt.view(0), &qbt.view(0));
    let m2 = vh::word_match(&rat.view(0), &qat.view(0));
    assert!(same_pair(&m1, &m2), "C06/C10: the matcher's verdict depends on what was matched before");
    crate::witness!(m1.is_some() && mb.is_none(), "A matches while B does not");
    std::mem::forget(m1); std::mem::forget(mb); std::mem::forget(m2);
}

macro_rules! cases {
    ($($name:ident = $body:expr;)*) => {
        $(
            #[cfg_attr(kani, kani::proof)]
            #[cfg_attr(kani, kani::stub(core::slice::sort::unstable::sort, crate::stubs::unstable_sort_model))]
            pub fn $name() { $body }
        )*
        pub const ALL: &[(&str, fn())] = &[ $( (stringify!($name), $name as fn()) ),* ];
    };
}

cases! {
    // contract<NR, NQ, SR, SQ, QFIN>
    wm_con_1_1_1_1_f = contract::<1, 1, 1, 1, true>(); wm_con_1_1_1_1_u = contract::<1, 1, 1, 1, false>();
    wm_con_2_2_2_2_f = contract::<2, 2, 2, 2, true>(); wm_con_2_2_1_1_u = contract::<2, 2, 1, 1, false>();
    wm_con_2_1_2_1_u = contract::<2, 1, 2, 1, false>(); wm_con_1_2_1_2_f = contract::<1, 2, 1, 2, true>();
    wm_con_3_3_3_3_f = contract::<3, 3, 3, 3, true>(); wm_con_3_3_2_2_f = contract::<3, 3, 2, 2, true>();
    wm_con_3_3_1_1_u = contract::<3, 3, 1, 1, false>(); wm_con_3_2_3_2_u = contract::<3, 2, 3, 2, false>();
    wm_con_2_3_2_3_f = contract::<2, 3, 2, 3, true>(); wm_con_3_4_3_4_f = contract::<3, 4, 3, 4, true>();
    wm_con_4_3_4_3_f = contract::<4, 3, 4, 3, true>(); wm_con_4_3_2_2_u = contract::<4, 3, 2, 2, false>();
    wm_con_4_4_4_4_f = contract::<4, 4, 4, 4, true>(); wm_con_4_4_3_3_u = contract::<4, 4, 3, 3, false>();
    wm_con_5_5_5_5_f = contract::<5, 5, 5, 5, true>(); wm_con_5_4_4_3_f = contract::<5, 4, 4, 3, true>();
    wm_con_4_5_4_5_f = contract::<4, 5, 4, 5, true>(); wm_con_5_5_3_3_u = contract::<5, 5, 3, 3, false>();
    // prefix<NR, K, SR, SQ, QFIN>
    wm_pre_1_1_1_1_u = prefix::<1, 1, 1, 1, false>(); wm_pre_1_1_1_1_f = prefix::<1, 1, 1, 1, true>();
    wm_pre_2_1_2_1_u = prefix::<2, 1, 2, 1, false>(); wm_pre_2_2_2_2_u = prefix::<2, 2, 2, 2, false>(); wm_pre_2_2_1_1_f = prefix::<2, 2, 1, 1, true>();
    wm_pre_3_1_3_1_u = prefix::<3, 1, 3, 1, false>(); wm_pre_3_2_3_2_u = prefix::<3, 2, 3, 2, false>(); wm_pre_3_2_2_1_u = prefix::<3, 2, 2, 1, false>();
    wm_pre_3_3_3_3_u = prefix::<3, 3, 3, 3, false>(); wm_pre_3_3_2_2_f = prefix::<3, 3, 2, 2, true>();
    wm_pre_4_1_4_1_u = prefix::<4, 1, 4, 1, false>(); wm_pre_4_2_3_2_u = prefix::<4, 2, 3, 2, false>(); wm_pre_4_3_4_3_u = prefix::<4, 3, 4, 3, false>();
    wm_pre_4_3_3_2_u = prefix::<4, 3, 3, 2, false>(); wm_pre_4_4_4_4_u = prefix::<4, 4, 4, 4, false>(); wm_pre_4_4_3_3_f = prefix::<4, 4, 3, 3, true>();
    wm_pre_5_1_5_1_u = prefix::<5, 1, 5, 1, false>(); wm_pre_5_2_4_2_u = prefix::<5, 2, 4, 2, false>(); wm_pre_5_3_5_3_u = prefix::<5, 3, 5, 3, false>();
    wm_pre_5_4_4_3_u = prefix::<5, 4, 4, 3, false>(); wm_pre_5_5_5_5_u = prefix::<5, 5, 5, 5, false>(); wm_pre_5_5_4_4_f = prefix::<5, 5, 4, 4, true>();
    // typo<N, NQ, KIND, SR, SQ>
    wm_typo_5_sub = typo::<5, 5, 0, 5, 5>(); wm_typo_5_ins = typo::<5, 6, 1, 5, 6>(); wm_typo_5_del = typo::<5, 4, 2, 5, 4>(); wm_typo_5_tr = typo::<5, 5, 3, 5, 5>();
    wm_typo_5_sub_s4 = typo::<5, 5, 0, 4, 4>(); wm_typo_5_del_s4 = typo::<5, 4, 2, 4, 4>(); wm_typo_5_ins_s4 = typo::<5, 6, 1, 4, 5>(); wm_typo_5_tr_s3 = typo::<5, 5, 3, 3, 3>();
    wm_typo_6_sub = typo::<6, 6, 0, 6, 6>(); wm_typo_6_ins = typo::<6, 7, 1, 6, 7>(); wm_typo_6_del = typo::<6, 5, 2, 6, 5>(); wm_typo_6_tr = typo::<6, 6, 3, 6, 6>();
    wm_local_1 = local::<1, 1>(); wm_local_2 = local::<2, 2>(); wm_local_3 = local::<3, 3>();
    // gates_prefix<NR, K, QFIN>
    wm_gate_2_1_u = gates_prefix::<2, 1, false>(); wm_gate_3_2_u = gates_prefix::<3, 2, false>(); wm_gate_4_1_u = gates_prefix::<4, 1, false>();
    wm_gate_4_2_u = gates_prefix::<4, 2, false>(); wm_gate_4_3_u = gates_prefix::<4, 3, false>(); wm_gate_4_4_f = gates_prefix::<4, 4, true>();
    wm_gate_5_2_u = gates_prefix::<5, 2, false>(); wm_gate_5_3_u = gates_prefix::<5, 3, false>(); wm_gate_5_4_u = gates_prefix::<5, 4, false>();
    wm_gate_5_5_f = gates_prefix::<5, 5, true>(); wm_gate_6_2_u = gates_prefix::<6, 2, false>(); wm_gate_6_3_u = gates_prefix::<6, 3, false>();
    wm_gate_6_5_u = gates_prefix::<6, 5, false>(); wm_gate_6_6_f = gates_prefix::<6, 6, true>(); wm_gate_3_3_f = gates_prefix::<3, 3, true>();
    wm_gate_5_1_u = gates_prefix::<5, 1, false>(); wm_gate_4_4_u = gates_prefix::<4, 4, false>(); wm_gate_5_5_u = gates_prefix::<5, 5, false>();
    wm_pre_3_3_1_1_u = prefix::<3, 3, 1, 1, false>(); wm_pre_3_2_1_1_u = prefix::<3, 2, 1, 1, false>(); wm_pre_3_3_1_2_u = prefix::<3, 3, 1, 2, false>();
    wm_pre_2_2_1_1_u = prefix::<2, 2, 1, 1, false>();
    // gates_typo / dist_typo <N, NQ, KIND>
    wm_gtypo_5_sub = gates_typo::<5, 5, 0>(); wm_gtypo_5_ins = gates_typo::<5, 6, 1>(); wm_gtypo_5_del = gates_typo::<5, 4, 2>(); wm_gtypo_5_tr = gates_typo::<5, 5, 3>();
    wm_gtypo_6_sub = gates_typo::<6, 6, 0>(); wm_gtypo_6_ins = gates_typo::<6, 7, 1>(); wm_gtypo_6_del = gates_typo::<6, 5, 2>(); wm_gtypo_6_tr = gates_typo::<6, 6, 3>();
    wm_dtypo_5_sub = dist_typo::<5, 5, 0>(); wm_dtypo_5_ins = dist_typo::<5, 6, 1>(); wm_dtypo_5_del = dist_typo::<5, 4, 2>(); wm_dtypo_5_tr = dist_typo::<5, 5, 3>();
    wm_dtypo_6_sub = dist_typo::<6, 6, 0>(); wm_dtypo_6_del = dist_typo::<6, 5, 2>(); wm_dtypo_6_tr = dist_typo::<6, 6, 3>();
    // join_title<N, LA, LB, NQ> / join_query<N, S, NQ>
    wm_joint_1_2 = join_title::<4, 1, 2, 3>(); wm_joint_2_1 = join_title::<4, 2, 1, 3>(); wm_joint_2_2 = join_title::<5, 2, 2, 4>();
    wm_joint_1_3 = join_title::<5, 1, 3, 4>(); wm_joint_2_3 = join_title::<6, 2, 3, 5>(); wm_joint_3_2 = join_title::<6, 3, 2, 5>();
    wm_joinq_3_1 = join_query::<3, 1, 4>(); wm_joinq_3_2 = join_query::<3, 2, 4>(); wm_joinq_4_2 = join_query::<4, 2, 5>();
    wm_joinq_4_1 = join_query::<4, 1, 5>(); wm_joinq_5_2 = join_query::<5, 2, 6>(); wm_joinq_5_3 = join_query::<5, 3, 6>();
    // equal<N, SR, SQ>
    wm_eq_1 = equal::<1, 1, 1>(); wm_eq_2 = equal::<2, 2, 2>(); wm_eq_2_s1 = equal::<2, 1, 1>(); wm_eq_3 = equal::<3, 3, 3>(); wm_eq_3_s2 = equal::<3, 2, 2>();
    wm_eq_4 = equal::<4, 4, 4>(); wm_eq_4_s2 = equal::<4, 2, 3>(); wm_eq_5 = equal::<5, 5, 5>(); wm_eq_5_s3 = equal::<5, 3, 3>();
}
