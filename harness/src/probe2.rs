//! More tool-chain probes.

pub fn p2() {
    let mut dict: fnv::FnvHashMap<[char; 3], Vec<usize>> = fnv::FnvHashMap::default();
    let g = [crate::nd::any_char(), '\0', '\0'];
    let ix = 0usize;
    dict.entry(g).and_modify(|ixs| { ixs.push(ix); }).or_insert_with(|| vec![ix]);
    assert!(dict.get(&g).is_some());
    crate::witness!(true, "end");
    std::mem::forget(dict);
}
pub fn p3() {
    let mut dict: fnv::FnvHashMap<u32, usize> = fnv::FnvHashMap::default();
    let g = crate::nd::any_u32();
    dict.entry(g).and_modify(|ixs| { *ixs += 1; }).or_insert_with(|| 0);
    assert!(dict.get(&g).is_some());
    crate::witness!(true, "end");
    std::mem::forget(dict);
}
#[cfg_attr(kani, kani::proof)]
pub fn probe_p2() { p2() }
#[cfg_attr(kani, kani::proof)]
pub fn probe_p3() { p3() }
pub const ALL: &[(&str, fn())] = &[("probe_p2", probe_p2 as fn()), ("probe_p3", probe_p3 as fn())];
