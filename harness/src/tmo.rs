//! L2 with a CONTRACT ORACLE for the word matcher (DESIGN.md §3 "TM-oracle"): the real
//! `text_match` + `score` + `hit_matches` on texts of up to three words, where every call of
//! `word_match` is answered by ANY value the matcher's contract (lemma WM-contract) permits.
//! This explores the text matcher's own logic - greedy assignment, candidate replacement,
//! joined-word attempts, `split`, the filter - at shapes the real matcher cannot be run on.
//! The oracle is installed through the hook `verif_hooks::WORD_MATCH_ORACLE`, in the proof build
//! and in the native replay alike, so a counterexample replays on the real text matcher.
use lucid_suggest_core::tokenization::{Word, WordView};
use lucid_suggest_core::verif_hooks::{self as vh, Hit, WordMatch, ScoreType};
use crate::nd;
use crate::txt::{Txt, any_txt_stems};
use crate::tm::{check_structure, check_span_bound};

/// Any answer permitted by WM-contract for the pair (r, q).
fn oracle(r: &WordView, q: &WordView) -> Option<(WordMatch, WordMatch)> {
    if r.is_empty() || q.is_empty() { return None; }
    if !nd::any_bool() { return None; }
    let rs = nd::in_range(1, r.len());
    let qs = nd::in_range(q.stem, q.len());
    nd::assume(rs <= qs + 1 && qs <= rs + 1);
    let k = nd::below(4);
    let typos = k as f64 * 0.5;
    let longest = if rs > qs { rs } else { qs };
    nd::assume(typos <= 0.21 * longest as f64);
    if q.fin { nd::assume(rs >= r.stem); }
    Some(WordMatch::new_pair(r, q, rs, qs, typos))
}

pub fn oracle_case<const N: usize, const W: usize, const QN: usize, const QW: usize>(
    rspans: [(usize, usize); W], rstems: [usize; W], qspans: [(usize, usize); QW], qstems: [usize; QW], qfin: bool,
) {
    unsafe { vh::WORD_MATCH_ORACLE = Some(oracle); }
    let title = any_txt_stems::<N, W>(rspans, rstems, true);
    let query = any_txt_stems::<QN, QW>(qspans, qstems, qfin);
    let rating = nd::any_u32() as usize;
    nd::assume(rating < (1usize << 31));
    let qref = query.text();
    let mut hit = Hit { id: 7, title: title.text(), rating, rmatches: Vec::with_capacity(1), qmatches: Vec::with_capacity(1), scores: Default::default() };
    vh::score(&qref, &mut hit);
    check_structure(&title, &query, &hit.rmatches, &hit.qmatches);
    check_span_bound(&query, &hit.rmatches);
    let keep = vh::hit_matches(&qref, &hit);
    if hit.rmatches.len() == 0 { assert!(!keep, "C09: a hit for a non-empty query has no highlighted span"); }
    let c = hit.scores[ScoreType::Chars];
    assert!(c <= N as isize && c >= -(N as isize), "C01: matched-characters score is not a small number (silent wrap-around)");
    assert!(hit.scores[ScoreType::Tails] <= 0 && hit.scores[ScoreType::Tails] >= -(N as isize)
         && hit.scores[ScoreType::Trans] <= 0 && hit.scores[ScoreType::Trans] >= -(W as isize)
         && hit.scores[ScoreType::Offset] <= 0 && hit.scores[ScoreType::Offset] > -(W as isize) - 1,
            "C01: a score component is out of its range (wrap-around)");
    crate::witness!(hit.rmatches.len() >= 1 && keep, "a kept hit is reachable");
    unsafe { vh::WORD_MATCH_ORACLE = None; }
    std::mem::forget(hit);
}

macro_rules! cases {
    ($($name:ident = $body:expr;)*) => {
        $(
            #[cfg_attr(kani, kani::proof)]
            pub fn $name() { $body }
        )*
        pub const ALL: &[(&str, fn())] = &[ $( (stringify!($name), $name as fn()) ),* ];
    };
}

cases! {
    // oracle_case::<N, W, QN, QW>(title spans, title stems, query spans, query stems, query finished)
    tmo_r1_q1 = oracle_case::<1, 1, 1, 1>([(0, 1)], [1], [(0, 1)], [1], true);
    tmo_r3_q3 = oracle_case::<3, 1, 3, 1>([(0, 3)], [2], [(0, 3)], [2], false);
    tmo_r12_q3 = oracle_case::<4, 2, 3, 1>([(0, 1), (2, 4)], [1, 2], [(0, 3)], [3], true);
    tmo_r21_q3 = oracle_case::<4, 2, 3, 1>([(0, 2), (3, 4)], [2, 1], [(0, 3)], [2], false);
    tmo_r3_q12 = oracle_case::<3, 1, 4, 2>([(0, 3)], [3], [(0, 1), (2, 4)], [1, 2], true);
    tmo_r33_q3 = oracle_case::<7, 2, 3, 1>([(0, 3), (4, 7)], [3, 3], [(0, 3)], [3], true);
    tmo_r33_q3u = oracle_case::<7, 2, 3, 1>([(0, 3), (4, 7)], [2, 3], [(0, 3)], [2], false);
    tmo_r22_q22 = oracle_case::<5, 2, 5, 2>([(0, 2), (3, 5)], [2, 2], [(0, 2), (3, 5)], [2, 2], true);
    tmo_r22_q22u = oracle_case::<5, 2, 5, 2>([(0, 2), (3, 5)], [2, 1], [(0, 2), (3, 5)], [2, 1], false);
    tmo_r111_q11 = oracle_case::<5, 3, 3, 2>([(0, 1), (2, 3), (4, 5)], [1, 1, 1], [(0, 1), (2, 3)], [1, 1], true);
    tmo_r23_q5 = oracle_case::<6, 2, 5, 1>([(0, 2), (3, 6)], [2, 3], [(0, 5)], [5], true);
    tmo_r5_q23 = oracle_case::<5, 1, 6, 2>([(0, 5)], [5], [(0, 2), (3, 6)], [2, 3], true);
    tmo_r232_q33 = oracle_case::<9, 3, 7, 2>([(0, 2), (3, 6), (7, 9)], [2, 3, 2], [(0, 3), (4, 7)], [3, 3], false);
}
