//! L2/L3: `text_match` + `score` + `hit_matches` + `compare_hits` on texts of fixed shape with
//! symbolic contents, REAL word matcher underneath (tiny shapes), see DESIGN.md §3.4.
//! Serves C01 (no panic / no wrap-around), C09 (match structure), C05 (span bound),
//! C03/C13/C14 (the record is kept), C12 (empty query).
use lucid_suggest_core::lang::CharClass;
use lucid_suggest_core::tokenization::{WordShape, TextRef, Word};
use lucid_suggest_core::verif_hooks::{self as vh, Hit, WordMatch, ScoreType};
use crate::{nd, build};
use crate::txt::{Txt, Mode, any_txt, any_txt_stems};

/// Structural contract P_tm of the match vectors (what highlighting and scoring rely on).
pub fn check_structure<const N: usize, const W: usize, const QN: usize, const QW: usize>(title: &Txt<N, W>, query: &Txt<QN, QW>, rm: &[WordMatch], qm: &[WordMatch]) {
    let mut i = 0;
    while i < rm.len() {
        let m = &rm[i];
        assert!(m.offset < W, "C09: match refers to a word the title does not have");
        let w = &title.words[m.offset];
        assert!(m.slice == w.slice, "C09: match is not aligned with its title word");
        assert!(m.subslice.0 == 0, "C09: highlighted span does not start at the first character of the word");
        assert!(m.subslice.1 >= 1, "C09: empty highlighted span");
        assert!(m.subslice.1 <= w.slice.1 - w.slice.0, "C09: highlighted span ends outside its word");
        if i > 0 { assert!(rm[i - 1].offset < m.offset, "C09: a title word is matched twice or matches are out of order"); }
        assert!(m.typos >= 0.0, "negative typo count");
        i += 1;
    }
    let mut i = 0;
    while i < qm.len() {
        let m = &qm[i];
        assert!(m.offset < QW, "query match refers to a word the query does not have");
        if i > 0 { assert!(qm[i - 1].offset < m.offset, "a query word is matched twice"); }
        i += 1;
    }
    assert!((rm.len() == 0) == (qm.len() == 0), "C09: title matches without query matches or vice versa");
}

/// No highlighted span is more than one character longer than the stretch of query text from
/// its first to its last word (C05).
pub fn check_span_bound<const QN: usize, const QW: usize>(query: &Txt<QN, QW>, rm: &[WordMatch]) {
    if QW == 0 { return; }
    let stretch = query.words[QW - 1].slice.1 - query.words[0].slice.0;
    let mut i = 0;
    while i < rm.len() {
        assert!(rm[i].subslice.1 - rm[i].subslice.0 <= stretch + 1, "C05: highlighted span longer than the typed stretch + 1");
        i += 1;
    }
}

/// Everything `Store::search` does with one record after candidate selection, on symbolic
/// contents: match, score (all nine components), filter, compare with itself.
/// Title: N characters, W words at `rspans`; query: QN characters, QW words at `qspans`, last
/// query word finished iff `qfin`; `cap` = initial capacity of the distance matrix (fits the shape).
pub fn score_case<const N: usize, const W: usize, const QN: usize, const QW: usize>(
    rspans: [(usize, usize); W], rstems: [usize; W], qspans: [(usize, usize); QW], qstems: [usize; QW], qfin: bool, cap: usize,
) {
    unsafe { vh::DAMLEV_CAPACITY = cap; }
    let title = any_txt_stems::<N, W>(rspans, rstems, true);
    let query = any_txt_stems::<QN, QW>(qspans, qstems, qfin);
    let rating = nd::any_u32() as usize;
    nd::assume(rating < (1usize << 31));
    let qref = query.text();
    let mut hit = Hit { id: 7, title: title.text(), rating, rmatches: Vec::with_capacity(1), qmatches: Vec::with_capacity(1), scores: Default::default() };
    vh::score(&qref, &mut hit);
    check_structure(&title, &query, &hit.rmatches, &hit.qmatches);
    check_span_bound(&query, &hit.rmatches);
    let keep = vh::hit_matches(&qref, &hit);
    if QW == 0 {
        assert!(hit.rmatches.len() == 0 && keep, "C12/C09: empty query must match every record without highlighting");
    }
    if hit.rmatches.len() == 0 && QW > 0 { assert!(!keep, "C09: a hit for a non-empty query has no highlighted span"); }
    assert!(hit.scores[ScoreType::Rating] == rating as isize, "C07: rating component is not the record's rating");
    // wiring of score(): component i is the documented i-th priority (C08 decides the functions themselves)
    assert!(hit.scores[ScoreType::Chars] == vh::score_chars_up(&hit) && hit.scores[ScoreType::Words] == vh::score_words_up(&hit)
         && hit.scores[ScoreType::Tails] == vh::score_tails_down(&hit) && hit.scores[ScoreType::Trans] == vh::score_trans_down(&hit)
         && hit.scores[ScoreType::Fin] == vh::score_fin_up(&hit) && hit.scores[ScoreType::Offset] == vh::score_offset_down(&hit)
         && hit.scores[ScoreType::WordLen] == vh::score_word_len_down(&hit) && hit.scores[ScoreType::CharLen] == vh::score_char_len_down(&hit),
            "C08: score() stores a component in the wrong priority slot");
    assert!(hit.scores[ScoreType::Chars] <= N as isize && hit.scores[ScoreType::Chars] >= -(N as isize), "C01: matched-characters score is not a small number (silent wrap-around)");
    assert!(vh::compare_hits(&hit, &hit) == std::cmp::Ordering::Equal, "C07: hit does not tie with itself");
    crate::witness!(W == 0 || QW == 0 || hit.rmatches.len() > 0, "a match is reachable");
    std::mem::forget(hit);
}

/// `score_case` with every character restricted to a four-symbol alphabet (two letters, two
/// digits): keeps character classification - should the code under test ever consult it at this
/// level - within reach of constant folding, and makes digit-only queries an explicit case.
pub fn score_case_ascii<const N: usize, const W: usize, const QN: usize, const QW: usize>(
    rspans: [(usize, usize); W], rstems: [usize; W], qspans: [(usize, usize); QW], qstems: [usize; QW], qfin: bool, cap: usize,
) {
    unsafe { vh::DAMLEV_CAPACITY = cap; }
    let title = any_txt_stems::<N, W>(rspans, rstems, true);
    let query = any_txt_stems::<QN, QW>(qspans, qstems, qfin);
    let mut i = 0;
    while i < N { let c = title.chars[i]; nd::assume(c == 'a' || c == 'b' || c == '1' || c == '2'); i += 1; }
    let mut i = 0;
    while i < QN { let c = query.chars[i]; nd::assume(c == 'a' || c == 'b' || c == '1' || c == '2'); i += 1; }
    let qref = query.text();
    let mut hit = Hit { id: 7, title: title.text(), rating: 1, rmatches: Vec::with_capacity(1), qmatches: Vec::with_capacity(1), scores: Default::default() };
    vh::score(&qref, &mut hit);
    check_structure(&title, &query, &hit.rmatches, &hit.qmatches);
    let keep = vh::hit_matches(&qref, &hit);
    if hit.rmatches.len() == 0 && QW > 0 { assert!(!keep, "C09: a hit for a non-empty query has no highlighted span"); }
    crate::witness!(QW == 0 || (hit.rmatches.len() == 0 && query.chars[0] == '1'), "a digit query without a match is reachable");
    std::mem::forget(hit);
}

fn same_matches(a: &[WordMatch], b: &[WordMatch]) -> bool {
    if a.len() != b.len() { return false; }
    let mut i = 0;
    while i < a.len() {
        let (x, y) = (&a[i], &b[i]);
        if x.offset != y.offset || x.slice != y.slice || x.subslice != y.subslice || x.typos != y.typos || x.func != y.func || x.fin != y.fin { return false; }
        i += 1;
    }
    true
}

fn same_scores(a: &Hit, b: &Hit) -> bool {
    a.scores[ScoreType::Chars] == b.scores[ScoreType::Chars] && a.scores[ScoreType::Words] == b.scores[ScoreType::Words]
        && a.scores[ScoreType::Tails] == b.scores[ScoreType::Tails] && a.scores[ScoreType::Trans] == b.scores[ScoreType::Trans]
        && a.scores[ScoreType::Fin] == b.scores[ScoreType::Fin] && a.scores[ScoreType::Offset] == b.scores[ScoreType::Offset]
        && a.scores[ScoreType::Rating] == b.scores[ScoreType::Rating] && a.scores[ScoreType::WordLen] == b.scores[ScoreType::WordLen]
        && a.scores[ScoreType::CharLen] == b.scores[ScoreType::CharLen]
}

/// C06 / C10: a record's verdict does not depend on what was scored before. Record A is scored
/// first thing (fresh scratch state), then ANOTHER record B against ANOTHER query, then A again.
pub fn local_case<const N: usize, const W: usize, const QN: usize, const QW: usize>(
    rspans: [(usize, usize); W], rstems: [usize; W], qspans: [(usize, usize); QW], qstems: [usize; QW], qfin: bool, cap: usize,
) {
    unsafe { vh::DAMLEV_CAPACITY = cap; }
    let a = any_txt_stems::<N, W>(rspans, rstems, true);
    let qa = any_txt_stems::<QN, QW>(qspans, qstems, qfin);
    let b = any_txt_stems::<N, W>(rspans, rstems, true);
    let qb = any_txt_stems::<QN, QW>(qspans, qstems, qfin);
    let (qa_ref, qb_ref) = (qa.text(), qb.text());
    let (a_ref, b_ref) = (a.text(), b.text());
    let (r1, q1) = vh::text_match(&a_ref, &qa_ref);
    let (rb, qb_m) = vh::text_match(&b_ref, &qb_ref);
    let (r2, q2) = vh::text_match(&a_ref, &qa_ref);
    assert!(same_matches(&r1, &r2) && same_matches(&q1, &q2), "C06/C10: a record's matches depend on what was matched before");
    crate::witness!(r1.len() > 0 && rb.len() == 0, "A matches while B does not");
    std::mem::forget(r1); std::mem::forget(q1); std::mem::forget(rb); std::mem::forget(qb_m); std::mem::forget(r2); std::mem::forget(q2);
}

macro_rules! cases {
    ($($name:ident = $body:expr;)*) => {
        $(
            #[cfg_attr(kani, kani::proof)]
            #[cfg_attr(kani, kani::stub(core::slice::sort::unstable::sort, crate::stubs::unstable_sort_model))]
            pub fn $name() { $body }
        )*
        pub const ALL: &[(&str, fn())] = &[ $( (stringify!($name), $name as fn()) ),* ];
    };
}

cases! {
    // score_case::<N, W, QN, QW>(title spans, title stems, query spans, query stems, query finished, matrix capacity)
    tm_r1_q1 = score_case::<1, 1, 1, 1>([(0, 1)], [1], [(0, 1)], [1], true, 3);
    tm_r2_q2 = score_case::<2, 1, 2, 1>([(0, 2)], [2], [(0, 2)], [2], true, 4);
    tm_r2_q2u = score_case::<2, 1, 2, 1>([(0, 2)], [2], [(0, 2)], [1], false, 4);
    tm_r3_q3 = score_case::<3, 1, 3, 1>([(0, 3)], [3], [(0, 3)], [3], true, 4);
    tm_r3_q3u = score_case::<3, 1, 3, 1>([(0, 3)], [2], [(0, 3)], [2], false, 4);
    tm_r12_q3 = score_case::<4, 2, 3, 1>([(0, 1), (2, 4)], [1, 2], [(0, 3)], [3], true, 5);
    tm_r21_q3 = score_case::<4, 2, 3, 1>([(0, 2), (3, 4)], [2, 1], [(0, 3)], [3], true, 5);
    tm_r3_q12 = score_case::<3, 1, 4, 2>([(0, 3)], [3], [(0, 1), (2, 4)], [1, 2], true, 5);
    tm_r11_q11 = score_case::<3, 2, 3, 2>([(0, 1), (2, 3)], [1, 1], [(0, 1), (2, 3)], [1, 1], true, 4);
    tm_r11_q1 = score_case::<3, 2, 1, 1>([(0, 1), (2, 3)], [1, 1], [(0, 1)], [1], false, 4);
    tm_r2_q0 = score_case::<2, 1, 1, 0>([(0, 2)], [2], [], [], true, 3);
    tm_r0_q2 = score_case::<1, 0, 2, 1>([], [], [(0, 2)], [2], true, 3);
    tm_ascii_r1_q1 = score_case_ascii::<1, 1, 1, 1>([(0, 1)], [1], [(0, 1)], [1], true, 3);
    tm_ascii_r2_q2 = score_case_ascii::<2, 1, 2, 1>([(0, 2)], [2], [(0, 2)], [2], true, 4);
    tm_local_r1_q1 = local_case::<1, 1, 1, 1>([(0, 1)], [1], [(0, 1)], [1], true, 3);
    tm_local_r2_q2 = local_case::<2, 1, 2, 1>([(0, 2)], [2], [(0, 2)], [2], true, 4);
    tm_r22_q4 = score_case::<5, 2, 4, 1>([(0, 2), (3, 5)], [2, 2], [(0, 4)], [4], true, 6);
    tm_r13_q4 = score_case::<5, 2, 4, 1>([(0, 1), (2, 5)], [1, 3], [(0, 4)], [4], true, 6);
}
