//! Environment models (DESIGN.md §2 T1): replacements for std routines that CBMC cannot
//! unroll when the slice length is not syntactically constant. Each is a textbook
//! implementation of the documented contract of the std routine it replaces.

/// Contract of `<[T]>::sort_unstable`: afterwards the slice is a permutation of its old
/// contents in non-decreasing order.
pub fn insertion_sort<T: Ord>(v: &mut [T]) {
    let n = v.len();
    let mut i = 1;
    while i < n {
        let mut j = i;
        while j > 0 && v[j - 1] > v[j] {
            v.swap(j - 1, j);
            j -= 1;
        }
        i += 1;
    }
}
