//! Environment models (DESIGN.md §2 T1): replacements for std routines that CBMC cannot
//! unroll when the slice length is not syntactically constant. Each is a textbook
//! implementation of the documented contract of the std routine it replaces.

/// Contract of `<[T]>::sort_unstable`: afterwards the slice is a permutation of its old
/// contents in non-decreasing order.
pub fn insertion_sort<T: Ord>(v: &mut [T]) {
    let n = v.len();
    let mut i = 1;
    while i < n {
        let mut j = i;
        while j > 0 && v[j - 1] > v[j] {
            v.swap(j - 1, j);
            j -= 1;
        }
        i += 1;
    }
}

/// Model of `Vec::with_capacity`: CBMC mis-handles the dangling pointer of a zero-capacity
/// vector when the requested capacity is not a literal (spurious NULL dereference on the next
/// push; minimal reproduction in probe.rs). Always reserving at least one slot avoids the
/// dangling representation; `capacity()` is then >= the request, which `with_capacity` allows.
pub fn vec_with_capacity<T>(n: usize) -> Vec<T> {
    let mut v = Vec::new();
    v.reserve_exact(if n == 0 { 1 } else { n });
    v
}

/// Contract of `<[T]>::sort_unstable_by`: a permutation ordered by `compare`.
pub fn insertion_sort_by<T, F>(v: &mut [T], mut compare: F)
where
    F: FnMut(&T, &T) -> std::cmp::Ordering,
{
    let n = v.len();
    let mut i = 1;
    while i < n {
        let mut j = i;
        while j > 0 && compare(&v[j - 1], &v[j]) == std::cmp::Ordering::Greater {
            v.swap(j - 1, j);
            j -= 1;
        }
        i += 1;
    }
}

/// Model of `core::slice::sort::unstable::sort`, the routine behind `sort_unstable`,
/// `sort_unstable_by` and `sort_unstable_by_key`: insertion sort by `is_less`.
pub fn unstable_sort_model<T, F>(v: &mut [T], is_less: &mut F)
where
    F: FnMut(&T, &T) -> bool,
{
    let n = v.len();
    let mut i = 1;
    while i < n {
        let mut j = i;
        while j > 0 && is_less(&v[j], &v[j - 1]) {
            v.swap(j - 1, j);
            j -= 1;
        }
        i += 1;
    }
}
