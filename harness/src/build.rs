//! Builders for the crate's text structures from fixed-size arrays (the tokeniser is not
//! executed under Kani, DESIGN.md F5). Everything built here satisfies the tokeniser output
//! contract WF for the shapes given.
use lucid_suggest_core::lang::{CharClass, PartOfSpeech};
use lucid_suggest_core::tokenization::{WordShape, TextRef};
use crate::nd;

pub fn class_from(v: u8) -> CharClass {
    match v {
        0 => CharClass::Any,
        1 => CharClass::Control,
        2 => CharClass::Whitespace,
        3 => CharClass::Punctuation,
        4 => CharClass::NotAlpha,
        5 => CharClass::NotAlphaNum,
        6 => CharClass::Consonant,
        _ => CharClass::Vowel,
    }
}

/// Any of the 8 character classes.
pub fn any_class() -> CharClass {
    let v = nd::any_u8();
    nd::assume(v < 8);
    class_from(v)
}

/// A class the tokeniser can actually assign (`set_char_classes`): a language class
/// (Consonant / Vowel), NotAlpha, or Any.
pub fn any_token_class() -> CharClass {
    let v = nd::any_u8();
    nd::assume(v < 4);
    match v { 0 => CharClass::Any, 1 => CharClass::NotAlpha, 2 => CharClass::Consonant, _ => CharClass::Vowel }
}

pub fn any_classes<const N: usize>() -> [CharClass; N] {
    let mut out = [CharClass::Any; N];
    let mut i = 0;
    while i < N { out[i] = any_class(); i += 1; }
    out
}

pub fn any_token_classes<const N: usize>() -> [CharClass; N] {
    let mut out = [CharClass::Any; N];
    let mut i = 0;
    while i < N { out[i] = any_token_class(); i += 1; }
    out
}

/// Function-word flag as a part of speech (POS assumption of DESIGN.md §4).
pub fn any_pos() -> Option<PartOfSpeech> {
    let v = nd::any_u8();
    nd::assume(v < 3);
    match v { 0 => None, 1 => Some(PartOfSpeech::Noun), _ => Some(PartOfSpeech::Article) }
}

/// A word occupying `lo..hi` with an arbitrary stem in 1..=len (STEM assumption).
pub fn word(offset: usize, lo: usize, hi: usize, fin: bool) -> WordShape {
    let len = hi - lo;
    let stem = if len == 0 { 0 } else { nd::in_range(1, len) };
    WordShape { offset, slice: (lo, hi), stem, pos: any_pos(), fin }
}

pub fn word_full_stem(offset: usize, lo: usize, hi: usize, fin: bool) -> WordShape {
    WordShape { offset, slice: (lo, hi), stem: hi - lo, pos: any_pos(), fin }
}

pub fn text<'a>(words: &'a [WordShape], chars: &'a [char], classes: &'a [CharClass]) -> TextRef<'a> {
    TextRef { words, source: chars, chars, classes }
}
