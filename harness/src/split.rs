//! Joined matches: `WordView::join`, `WordMatch::split` (with its float kernel `split_typos`) and
//! the scorer on the two parts. This is where a match can carry more typo penalty than matched
//! characters (C01). The joined match itself is symbolic, constrained by the matcher's contract
//! (WM-contract); everything downstream is the real code.
use lucid_suggest_core::tokenization::Word;
use lucid_suggest_core::verif_hooks::{self as vh, Hit, WordMatch, ScoreType};
use crate::nd;
use crate::txt::any_txt_stems;

/// Title of N characters: word 1 = (0, L1), GAP separator characters, word 2 of L2 letters.
pub fn split_case<const N: usize, const L1: usize, const GAP: usize, const L2: usize>() {
    let t = any_txt_stems::<N, 2>([(0, L1), (L1 + GAP, L1 + GAP + L2)], [L1, L2], true);
    let text = t.text();
    let (v1, v2) = (text.view(0), text.view(1));
    let joined = v1.join(&v2);
    assert!(joined.len() == N && joined.stem == L1 + GAP + L2, "C14: joined view has the wrong extent / stem");
    // a joined match permitted by the matcher's contract
    let rs = nd::in_range(1, N);
    let qs = nd::in_range(1, N + 1);
    nd::assume(rs <= qs + 1 && qs <= rs + 1);
    let k = nd::below(8);
    let typos = k as f64 * 0.5;
    let longest = if rs > qs { rs } else { qs };
    nd::assume(typos <= 0.21 * longest as f64);
    let fin = nd::any_bool();
    let m = WordMatch { offset: v1.offset, slice: joined.slice, subslice: (0, rs), typos, func: false, fin };
    let parts = m.split(&v1, &v2);
    if rs > L1 + GAP { assert!(parts.is_some(), "C14: a joined match reaching into the second word is not split"); }
    if let Some((p1, p2)) = parts {
        assert!(p1.offset == 0 && p2.offset == 1 && p1.slice == (0, L1) && p2.slice == (L1 + GAP, N), "C09: split parts not aligned with the two words");
        assert!(p1.subslice == (0, L1), "C09: first part does not cover the first word");
        assert!(p2.subslice.0 == 0 && p2.subslice.1 >= 1 && p2.subslice.1 <= L2, "C09: second part empty or outside the second word");
        assert!(p1.typos >= 0.0 && p2.typos >= 0.0 && p1.typos <= typos && p2.typos <= typos, "typo split out of range");
        let mut hit = Hit { id: 1, title: t.text(), rating: 3, rmatches: Vec::with_capacity(2), qmatches: Vec::with_capacity(1), scores: Default::default() };
        hit.rmatches.push(p1);
        hit.rmatches.push(p2);
        // the scorer on the parts: must not trap (overflow checks) - C01
        let chars = vh::score_chars_up(&hit);
        let tails = vh::score_tails_down(&hit);
        let trans = vh::score_trans_down(&hit);
        let words = vh::score_words_up(&hit);
        let off = vh::score_offset_down(&hit);
        let fin_s = vh::score_fin_up(&hit);
        assert!(chars <= N as isize && chars >= -(N as isize), "C01: matched-characters score is not a small number (silent wrap-around)");
        assert!(tails <= 0 && trans == 0 && words >= 0 && off == 0 && (fin_s == 0 || fin_s == 1), "score components out of range");
        crate::witness!(hit.rmatches[0].typos > 0.0, "a split with typos is reachable");
        std::mem::forget(hit);
    }
}

macro_rules! cases {
    ($($name:ident = $body:expr;)*) => {
        $(
            #[cfg_attr(kani, kani::proof)]
            pub fn $name() { $body }
        )*
        pub const ALL: &[(&str, fn())] = &[ $( (stringify!($name), $name as fn()) ),* ];
    };
}

cases! {
    split_1_1_1 = split_case::<3, 1, 1, 1>(); split_1_1_2 = split_case::<4, 1, 1, 2>(); split_2_1_1 = split_case::<4, 2, 1, 1>();
    split_2_1_2 = split_case::<5, 2, 1, 2>(); split_1_1_5 = split_case::<7, 1, 1, 5>(); split_2_1_3 = split_case::<6, 2, 1, 3>();
    split_3_1_3 = split_case::<7, 3, 1, 3>(); split_2_2_2 = split_case::<6, 2, 2, 2>(); split_4_1_4 = split_case::<9, 4, 1, 4>();
    split_1_1_8 = split_case::<10, 1, 1, 8>(); split_1_2_1 = split_case::<4, 1, 2, 1>(); split_1_3_2 = split_case::<6, 1, 3, 2>(); split_5_1_5 = split_case::<11, 5, 1, 5>();
}
