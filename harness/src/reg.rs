//! The top-level registry's limit / result-buffer arithmetic (lib.rs `set_limit`), the one part of
//! the registry that does not run the tokeniser. Serves C01 (no underflow / panic) at that level.
use lucid_suggest_core::{create_store, destroy_store, highlight_with, set_limit, using_results, using_store, SearchResult, Lang, DEFAULT_LIMIT};
use crate::nd;

/// A store whose result buffer holds K hits of an earlier search; then the limit is changed
/// to a symbolic value below `LMAX`.
pub fn set_limit_case<const K: usize, const LMAX: usize>() {
    let id = 7usize;
    create_store(id, Lang::new());
    using_results(id, |b| {
        let mut i = 0;
        while i < K { b.push(SearchResult { id: nd::any_u32() as usize, title: String::new() }); i += 1; }
    });
    let l = nd::below(LMAX);
    set_limit(id, l);
    using_store(id, |s| assert!(s.limit == l, "C01/C20: limit not stored"));
    using_results(id, |b| {
        assert!(b.len() == K, "C20: changing the limit altered the stored result");
        assert!(b.capacity() >= l || b.capacity() >= K, "result buffer smaller than the limit");
    });
    crate::witness!(K == 0 || l < K, "limit lowered below the number of buffered hits (where there are any)");
}

/// C20 (the part that does not run the tokeniser): two stores with distinct ids (arbitrary when
/// SYMBOLIC_IDS, else 7 and 3).
/// Store B holds K buffered hits, a limit and markers; then A is configured, destroyed and created
/// again. B must be untouched and the re-created A must start empty with default settings.
pub fn isolation_case<const K: usize, const SYMBOLIC_IDS: bool>() {
    let (a, b) = if SYMBOLIC_IDS { (nd::any_u64() as usize, nd::any_u64() as usize) } else { (7usize, 3usize) };
    nd::assume(a != b);
    create_store(a, Lang::new());
    create_store(b, Lang::new());
    let lb = nd::below(10);
    set_limit(b, lb);
    highlight_with(b, ("<", ">"));
    let first_id = nd::any_u32() as usize;
    using_results(b, |buf| {
        let mut i = 0;
        while i < K { buf.push(SearchResult { id: first_id + i, title: String::new() }); i += 1; }
    });
    // operations on A
    let la = nd::below(10);
    set_limit(a, la);
    highlight_with(a, ("{", "}"));
    using_results(a, |buf| buf.push(SearchResult { id: 1, title: String::new() }));
    using_store(a, |s| assert!(s.limit == la && s.dividers.0.len() == 1 && s.dividers.0[0] == '{', "C20: setting not applied to its own store"));
    destroy_store(a);
    create_store(a, Lang::new());
    // B untouched
    using_store(b, |s| assert!(s.limit == lb && s.dividers.0.len() == 1 && s.dividers.0[0] == '<' && s.dividers.1[0] == '>' && s.records.len() == 0,
                               "C20: an operation on another id changed this store"));
    using_results(b, |buf| {
        assert!(buf.len() == K, "C20: an operation on another id changed this store's result buffer");
        let mut i = 0;
        while i < K { assert!(buf[i].id == first_id + i, "C20: result buffer content changed"); i += 1; }
    });
    // re-created A starts empty
    using_store(a, |s| assert!(s.limit == DEFAULT_LIMIT && s.records.len() == 0 && s.dividers.0[0] == '[', "C20: a re-created id does not start with default settings"));
    using_results(a, |buf| assert!(buf.len() == 0, "C20: a re-created id does not start with an empty result buffer"));
    crate::witness!(la != lb, "different limits reachable");
}

macro_rules! cases {
    ($($name:ident = $body:expr;)*) => {
        $(
            #[cfg_attr(kani, kani::proof)]
            pub fn $name() { $body }
        )*
        pub const ALL: &[(&str, fn())] = &[ $( (stringify!($name), $name as fn()) ),* ];
    };
}

cases! {
    reg_limit_0_4 = set_limit_case::<0, 4>(); reg_limit_3_8 = set_limit_case::<3, 8>(); reg_limit_5_8 = set_limit_case::<5, 8>();
    reg_iso_0 = isolation_case::<0, false>(); reg_iso_2 = isolation_case::<2, false>(); reg_iso_3 = isolation_case::<3, false>(); reg_iso_sym_1 = isolation_case::<1, true>();
    reg_limit_3_14 = set_limit_case::<3, 14>(); reg_limit_10_14 = set_limit_case::<10, 14>();
}
