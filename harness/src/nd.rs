//! Source of nondeterminism shared by the proof build (Kani: every value is symbolic) and the
//! native replay build (values come from a counterexample file extracted from the solver's
//! trace). Every symbolic value passes through `rec`, which appends it to `ND_LOG`; the driver
//! reads the log back from the CBMC trace, so replay needs nothing from Kani's own playback.

pub const LOG_CAP: usize = 192;

#[cfg(kani)]
mod imp {
    use super::LOG_CAP;
    pub static mut ND_LOG: [u64; LOG_CAP] = [0; LOG_CAP];
    pub static mut ND_CTR: usize = 0;

    #[inline(never)]
    fn rec(v: u64) -> u64 {
        unsafe {
            let i = ND_CTR;
            if i < LOG_CAP { ND_LOG[i] = v; }
            ND_CTR = i + 1;
        }
        v
    }
    pub fn raw_u64() -> u64 { let v: u64 = kani::any(); rec(v) }
    pub fn raw_u32() -> u32 { let v: u32 = kani::any(); rec(v as u64) as u32 }
    pub fn raw_u8() -> u8 { let v: u8 = kani::any(); rec(v as u64) as u8 }
    pub fn assume(c: bool) { kani::assume(c) }
    pub fn concrete() -> bool { false }
}

#[cfg(not(kani))]
mod imp {
    use std::cell::RefCell;
    thread_local! {
        pub static INPUT: RefCell<(Vec<u64>, usize)> = RefCell::new((Vec::new(), 0));
    }
    pub fn load(values: Vec<u64>) { INPUT.with(|c| *c.borrow_mut() = (values, 0)); }
    fn next() -> u64 {
        INPUT.with(|c| {
            let (v, i) = &mut *c.borrow_mut();
            let x = v.get(*i).copied().unwrap_or(0);
            *i += 1;
            x
        })
    }
    pub fn raw_u64() -> u64 { next() }
    pub fn raw_u32() -> u32 { next() as u32 }
    pub fn raw_u8() -> u8 { next() as u8 }
    /// A replayed counterexample that violates a harness assumption is not a counterexample.
    pub fn assume(c: bool) {
        if !c {
            eprintln!("REPLAY: assumption violated - input is not a valid counterexample");
            std::process::exit(3);
        }
    }
    pub fn concrete() -> bool { true }
}

pub use imp::*;

pub fn any_u64() -> u64 { raw_u64() }
pub fn any_u32() -> u32 { raw_u32() }
pub fn any_u8() -> u8 { raw_u8() }
pub fn any_bool() -> bool { let v = raw_u8(); assume(v <= 1); v == 1 }
pub fn any_usize() -> usize { raw_u64() as usize }
/// A value in `0..n` (n > 0).
pub fn below(n: usize) -> usize { let v = raw_u32() as usize; assume(v < n); v }
/// A value in `lo..=hi`.
pub fn in_range(lo: usize, hi: usize) -> usize { let v = raw_u32() as usize; assume(v >= lo && v <= hi); v }
/// Any Unicode scalar value.
pub fn any_char() -> char {
    let v = raw_u32();
    assume(v <= 0x10FFFF && !(v >= 0xD800 && v <= 0xDFFF));
    match char::from_u32(v) { Some(c) => c, None => '\0' }
}
pub fn any_chars<const N: usize>() -> [char; N] {
    let mut out = ['\0'; N];
    let mut i = 0;
    while i < N { out[i] = any_char(); i += 1; }
    out
}
pub fn any_f64() -> f64 { f64::from_bits(raw_u64()) }

/// Reachability / non-vacuity witness: must be satisfiable in the proof build.
#[macro_export]
macro_rules! witness {
    ($c:expr, $m:literal) => {{
        #[cfg(kani)]
        kani::cover!($c, $m);
        #[cfg(not(kani))]
        { if $c { eprintln!("REPLAY: witness reached: {}", $m); } }
    }};
}
