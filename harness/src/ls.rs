//! Bounded top-k selection (`LimitSortIter`, used three times per search) and the hit comparator.
//! Serves C06 (never more than `limit`, no duplicates, first `limit` of the unlimited order),
//! C07 (consistent order; result independent of input order), C12 (top-rated selection).
use std::cmp::Ordering;
use lucid_suggest_core::verif_hooks::{LimitSort, Hit, ScoreType, compare_hits};
use lucid_suggest_core::tokenization::TextRef;
use crate::{nd, build};

/// N items with symbolic keys, tagged with their input position, through the real
/// `limit_sort_unstable(LIMIT, by key)`.
pub fn topk<const N: usize, const LIMIT: usize>() {
    let mut items = [(0u32, 0usize); N];
    let mut i = 0;
    while i < N { items[i] = (nd::any_u32(), i); i += 1; }
    let mut it = items.iter().copied().limit_sort_unstable(LIMIT, |a, b| a.0.cmp(&b.0));
    let mut out = [(0u32, 0usize); N];
    let mut n = 0;
    while let Some(x) = it.next() {
        assert!(n < N, "C06: more outputs than inputs");
        out[n] = x;
        n += 1;
    }
    let want = if LIMIT < N { LIMIT } else { N };
    assert!(n == want, "C06: output length is not min(limit, n)");
    let mut listed = [false; N];
    let mut k = 0;
    while k < n {
        let (key, pos) = out[k];
        assert!(pos < N && items[pos].0 == key, "C06: output item is not an input item");
        assert!(!listed[pos], "C06: an item is returned twice");
        listed[pos] = true;
        if k > 0 { assert!(out[k - 1].0 <= key, "C06/C07: output not in comparator order"); }
        k += 1;
    }
    // no omitted item is strictly better than a listed one
    let mut p = 0;
    while p < N {
        if !listed[p] {
            let mut k = 0;
            while k < n { assert!(out[k].0 <= items[p].0, "C06/C12: an omitted item is better than a listed one"); k += 1; }
        }
        p += 1;
    }
    crate::witness!(N < 2 || LIMIT == 0 || items[0].0 > items[N - 1].0, "input in non-sorted order reachable");
}

/// The stable variant (`limit_sort`) is not used by search but is public API of the iterator.
pub fn topk_stable<const N: usize, const LIMIT: usize>() {
    let mut items = [(0u32, 0usize); N];
    let mut i = 0;
    while i < N { items[i] = (nd::any_u32(), i); i += 1; }
    let mut it = items.iter().copied().limit_sort(LIMIT, |a, b| a.0.cmp(&b.0));
    let mut n = 0;
    let mut last: Option<(u32, usize)> = None;
    while let Some(x) = it.next() {
        if let Some(l) = last { assert!(l.0 <= x.0, "output not in comparator order"); }
        last = Some(x);
        n += 1;
    }
    assert!(n == if LIMIT < N { LIMIT } else { N }, "output length is not min(limit, n)");
    crate::witness!(true, "end reachable");
}

fn any_scores() -> [isize; 9] {
    let mut s = [0isize; 9];
    let mut i = 0;
    while i < 9 { s[i] = nd::any_u64() as i64 as isize; i += 1; }
    s
}

fn hit_with<'a>(title: TextRef<'a>, s: &[isize; 9]) -> Hit<'a> {
    let mut h = Hit { id: 0, title, rating: 0, rmatches: Vec::new(), qmatches: Vec::new(), scores: Default::default() };
    h.scores[ScoreType::Chars] = s[0];
    h.scores[ScoreType::Words] = s[1];
    h.scores[ScoreType::Tails] = s[2];
    h.scores[ScoreType::Trans] = s[3];
    h.scores[ScoreType::Fin] = s[4];
    h.scores[ScoreType::Offset] = s[5];
    h.scores[ScoreType::Rating] = s[6];
    h.scores[ScoreType::WordLen] = s[7];
    h.scores[ScoreType::CharLen] = s[8];
    h
}

/// Lexicographic "greater score first" reference.
fn model_cmp(a: &[isize; 9], b: &[isize; 9]) -> Ordering {
    let mut i = 0;
    while i < 9 {
        if a[i] > b[i] { return Ordering::Less; }
        if a[i] < b[i] { return Ordering::Greater; }
        i += 1;
    }
    Ordering::Equal
}

/// `compare_hits` is the lexicographic order on the 9 score components (higher first), hence a
/// strict weak order: irreflexive, antisymmetric, transitive, with transitive ties; two hits
/// are tied only if all nine components - in particular the ratings - are equal.
pub fn cmp_order() {
    let (sa, sb, sc) = (any_scores(), any_scores(), any_scores());
    let e: [char; 0] = [];
    let t = TextRef { words: &[], source: &e, chars: &e, classes: &[] };
    let a = hit_with(TextRef { words: &[], source: &e, chars: &e, classes: &[] }, &sa);
    let b = hit_with(TextRef { words: &[], source: &e, chars: &e, classes: &[] }, &sb);
    let c = hit_with(t, &sc);
    let ab = compare_hits(&a, &b);
    let ba = compare_hits(&b, &a);
    let bc = compare_hits(&b, &c);
    let ac = compare_hits(&a, &c);
    assert!(ab == model_cmp(&sa, &sb), "C07: comparator is not the documented lexicographic priority order");
    assert!(compare_hits(&a, &a) == Ordering::Equal, "C07: comparator not irreflexive");
    assert!(ab == ba.reverse(), "C07: comparator not antisymmetric");
    if ab == Ordering::Less && bc == Ordering::Less { assert!(ac == Ordering::Less, "C07: comparator not transitive"); }
    if ab == Ordering::Equal && bc == Ordering::Equal { assert!(ac == Ordering::Equal, "C07: ties not transitive"); }
    if sa[6] != sb[6] { assert!(ab != Ordering::Equal, "C07: hits with different ratings tie"); }
    crate::witness!(ab == Ordering::Less && sa[0] == sb[0] && sa[6] < sb[6], "earlier component outranks rating");
    std::mem::forget(a); std::mem::forget(b); std::mem::forget(c);
}

crate::inst! { []
    ls_topk_0_0 = topk<0,0>; ls_topk_0_2 = topk<0,2>; ls_topk_1_0 = topk<1,0>; ls_topk_1_1 = topk<1,1>;
    ls_topk_2_1 = topk<2,1>; ls_topk_3_0 = topk<3,0>; ls_topk_3_1 = topk<3,1>; ls_topk_3_2 = topk<3,2>; ls_topk_3_3 = topk<3,3>;
    ls_topk_3_5 = topk<3,5>; ls_topk_4_1 = topk<4,1>; ls_topk_4_2 = topk<4,2>; ls_topk_5_1 = topk<5,1>; ls_topk_5_2 = topk<5,2>;
    ls_topk_5_3 = topk<5,3>; ls_topk_6_2 = topk<6,2>; ls_topk_6_3 = topk<6,3>; ls_topk_7_2 = topk<7,2>; ls_topk_7_3 = topk<7,3>;
    ls_topk_7_1 = topk<7,1>; ls_topk_4_4 = topk<4,4>; ls_topk_4_6 = topk<4,6>;
    ls_stable_5_2 = topk_stable<5,2>; ls_stable_3_4 = topk_stable<3,4>;
}

#[cfg_attr(kani, kani::proof)]
pub fn cmp_strict_weak_order() { cmp_order() }
pub const ALL2: &[(&str, fn())] = &[("cmp_strict_weak_order", cmp_strict_weak_order as fn())];
