//! Probes of the tool chain itself (not part of any property).
use std::cell::RefCell;
pub struct Holder { pub a: RefCell<Vec<f64>>, pub b: RefCell<Vec<f64>>, pub m: RefCell<Vec<(char, usize)>> }
#[inline(never)]
fn mk(cap: usize) -> Holder {
    let a = RefCell::new(Vec::with_capacity(cap));
    let b = RefCell::new(Vec::with_capacity(cap));
    let m = RefCell::new(Vec::new());
    Holder { a, b, m }
}
pub fn vec_growth() {
    let h = mk(0);
    let v = &mut *h.a.borrow_mut();
    v.clear();
    let a = [0.5f64, 1.0];
    v.extend(a.iter().map(|x| *x));
    assert!(v[1] == 1.0);
    crate::witness!(true, "end");
}
pub fn vec_growth_ext() {
    let h = mk(2);
    let m = &mut *h.m.borrow_mut();
    m.clear();
    m.push(('a', 1));
    m.push(('b', 2));
    assert!(m[1].1 == 2);
    crate::witness!(true, "end");
}
pub fn vec_growth3() {
    let h = mk(2);
    let v = &mut *h.a.borrow_mut();
    v.clear();
    let a = [0.5f64, 1.0, 3.0];
    v.extend(a.iter().map(|x| *x));
    assert!(v[2] == 3.0);
    crate::witness!(true, "end");
}
#[cfg_attr(kani, kani::proof)]
pub fn probe_vec_growth() { vec_growth() }
#[cfg_attr(kani, kani::proof)]
pub fn probe_vec_growth_ext() { vec_growth_ext() }
#[cfg_attr(kani, kani::proof)]
pub fn probe_vec_growth3() { vec_growth3() }
pub const ALL: &[(&str, fn())] = &[("probe_vec_growth", probe_vec_growth as fn()), ("probe_vec_growth_ext", probe_vec_growth_ext as fn()), ("probe_vec_growth3", probe_vec_growth3 as fn())];
