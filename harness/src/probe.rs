//! Probes of the tool chain itself (not part of any property).
use std::cell::RefCell;
pub struct Holder { pub buffer: Vec<(u32, usize)>, pub limit: usize }
fn mk(limit: usize) -> Holder {
    Holder { buffer: Vec::with_capacity(limit * 2), limit }
}
pub fn vec_growth() {
    use lucid_suggest_core::verif_hooks::TrigramIndex;
    use lucid_suggest_core::Record;
    use crate::txt::{any_txt, Mode};
    let mut index = TrigramIndex::new();
    let t = any_txt::<1, 1>([(0, 1)], true, Mode::Plain);
    let rec = Record { ix: 0, id: 100, title: t.own(), rating: 0 };
    index.add(&rec);
    let q = any_txt::<1, 1>([(0, 1)], true, Mode::Plain);
    let got = index.prepare(&q.text(), 1);
    assert!(got.len() <= 1);
    crate::witness!(got.len() == 1, "end");
    std::mem::forget(rec); std::mem::forget(index); std::mem::forget(got);
}
pub fn vec_growth_ext() {
    use lucid_suggest_core::verif_hooks::LimitSort;
    let items = [(crate::nd::any_u32(), 0usize)];
    let mut it = items.iter().copied().limit_sort_unstable(0, |a, b| a.0.cmp(&b.0));
    assert!(it.next().is_none());
    crate::witness!(true, "end");
}
pub fn vec_growth3() {
    use lucid_suggest_core::verif_hooks::TrigramIndex;
    use lucid_suggest_core::Record;
    use crate::txt::{any_txt, Mode};
    let mut index = TrigramIndex::new();
    let t = any_txt::<1, 1>([(0, 1)], true, Mode::Plain);
    let rec = Record { ix: 0, id: 100, title: t.own(), rating: 0 };
    index.add(&rec);
    assert!(index.verif_len() == 1);
    crate::witness!(true, "end");
    std::mem::forget(rec); std::mem::forget(index);
}
pub fn vec_growth4() {
    use lucid_suggest_core::verif_hooks as vh;
    use crate::txt::{any_txt, Mode};
    unsafe { vh::DAMLEV_CAPACITY = 3; }
    let r = any_txt::<2, 1>([(0, 2)], true, Mode::Full);
    let q = any_txt::<2, 1>([(0, 2)], true, Mode::Full);
    let (rt, qt) = (r.text(), q.text());
    let m = vh::word_match(&rt.view(0), &qt.view(0));
    if let Some((rm, qm)) = &m { assert!(rm.subslice.1 <= 2); }
    crate::witness!(m.is_some(), "match reachable");
    std::mem::forget(m);
}
#[cfg_attr(kani, kani::proof)]
#[cfg_attr(kani, kani::stub(core::slice::sort::unstable::sort, crate::stubs::unstable_sort_model))]
pub fn probe_vec_growth4() { vec_growth4() }
#[cfg_attr(kani, kani::proof)]
#[cfg_attr(kani, kani::stub(core::slice::sort::unstable::sort, crate::stubs::unstable_sort_model))]
pub fn probe_vec_growth() { vec_growth() }
#[cfg_attr(kani, kani::proof)]
#[cfg_attr(kani, kani::stub(std::vec::Vec::with_capacity, crate::stubs::vec_with_capacity))]
pub fn probe_vec_growth_ext() { vec_growth_ext() }
#[cfg_attr(kani, kani::proof)]
#[cfg_attr(kani, kani::stub(core::slice::sort::unstable::sort, crate::stubs::unstable_sort_model))]
pub fn probe_vec_growth3() { vec_growth3() }
pub const ALL: &[(&str, fn())] = &[("probe_vec_growth", probe_vec_growth as fn()), ("probe_vec_growth_ext", probe_vec_growth_ext as fn()), ("probe_vec_growth3", probe_vec_growth3 as fn()), ("probe_vec_growth4", probe_vec_growth4 as fn())];
