//! Normalisation kernels (part of C15 / C02 / C01): `Lang::unicode_compose`, `Lang::unicode_reduce`
//! (with `Normalize` and `FadingWindows` underneath) on symbolic words over a small alphabet,
//! against a `Lang` built in the harness with map entries of the shapes the language files use
//! (compose: 2 characters -> 1; reduce: 1 -> 1 and 1 -> 2).
use lucid_suggest_core::Lang;
use crate::nd;

// alphabet: plain, reducible 1->1 (é -> e), reducible 1->2 (ß -> ss), combining acute, plain s, plain e
const ALPHA: [char; 6] = ['a', 'é', 'ß', '\u{301}', 's', 'e'];

fn any_alpha<const N: usize>() -> [char; N] {
    let mut out = ['a'; N];
    let mut i = 0;
    while i < N {
        let k = nd::below(6);
        out[i] = match k { 0 => 'a', 1 => 'é', 2 => 'ß', 3 => '\u{301}', 4 => 's', _ => 'e' };
        i += 1;
    }
    out
}

fn lang() -> Lang {
    let mut l = Lang::new();
    l.add_unicode_composition("e\u{301}", "é");
    l.add_unicode_reduction("é", "e");
    l.add_unicode_reduction("ß", "ss");
    l
}

/// reference: reduce char by char
fn reduce_ref<const N: usize>(w: &[char; N]) -> ([char; 8], [char; 8], usize) {
    let mut src = ['\0'; 8];
    let mut out = ['\0'; 8];
    let mut n = 0;
    let mut i = 0;
    while i < N {
        match w[i] {
            'é' => { src[n] = 'é'; out[n] = 'e'; n += 1; }
            'ß' => { src[n] = 'ß'; out[n] = 's'; src[n + 1] = '\0'; out[n + 1] = 's'; n += 2; }
            c => { src[n] = c; out[n] = c; n += 1; }
        }
        i += 1;
    }
    (src, out, n)
}

/// `unicode_reduce`: normalised and original arrays have equal length, the original with the
/// NUL padding removed is the input, the normalised array is the char-by-char reduction, and
/// `None` is returned exactly when nothing changes. No underflow in the padding loop.
pub fn reduce_case<const N: usize>() {
    let w: [char; N] = any_alpha();
    let l = lang();
    let (rsrc, rout, rn) = reduce_ref(&w);
    let mut changed = false;
    let mut i = 0;
    while i < N { if w[i] == 'é' || w[i] == 'ß' { changed = true; } i += 1; }
    match l.unicode_reduce(&w) {
        None => assert!(!changed, "C15: reduction skipped although the word contains a reducible character"),
        Some((src, out)) => {
            assert!(changed, "C15: reduction reported for a word without reducible characters");
            assert!(src.len() == out.len(), "C15: original and normalised arrays differ in length");
            assert!(out.len() == rn, "C15: normalised length is not the sum of the replacement lengths");
            let mut i = 0;
            while i < rn {
                assert!(out[i] == rout[i], "C15/C11: normalised character differs from the language's reduction");
                assert!(src[i] == rsrc[i], "C15/C02: original array is not the input padded with NUL");
                i += 1;
            }
            std::mem::forget(src); std::mem::forget(out);
        }
    }
    crate::witness!(changed && rn > N, "a growing reduction is reachable");
    std::mem::forget(l);
}

/// `unicode_compose`: the two-character sequence is replaced by the precomposed character,
/// longest pattern first, everything else is copied; `None` exactly when nothing changes.
pub fn compose_case<const N: usize>() {
    let w: [char; N] = any_alpha();
    let l = lang();
    let mut want = ['\0'; 8];
    let mut n = 0;
    let mut i = 0;
    while i < N {
        if i + 1 < N && w[i] == 'e' && w[i + 1] == '\u{301}' { want[n] = 'é'; n += 1; i += 2; }
        else { want[n] = w[i]; n += 1; i += 1; }
    }
    match l.unicode_compose(&w) {
        None => assert!(n == N, "C15: composition skipped although the word contains a composable sequence"),
        Some(out) => {
            assert!(n < N, "C15: composition reported for a word without composable sequences");
            assert!(out.len() == n, "C15: composed length wrong");
            let mut i = 0;
            while i < n { assert!(out[i] == want[i], "C15/C11: composed character wrong"); i += 1; }
            std::mem::forget(out);
        }
    }
    crate::witness!(n < N, "a composition is reachable");
    std::mem::forget(l);
}

macro_rules! cases {
    ($($name:ident = $body:expr;)*) => {
        $(
            #[cfg_attr(kani, kani::proof)]
            pub fn $name() { $body }
        )*
        pub const ALL: &[(&str, fn())] = &[ $( (stringify!($name), $name as fn()) ),* ];
    };
}

cases! {
    norm_reduce_1 = reduce_case::<1>(); norm_reduce_2 = reduce_case::<2>(); norm_reduce_3 = reduce_case::<3>();
    norm_compose_2 = compose_case::<2>(); norm_compose_3 = compose_case::<3>();
}
