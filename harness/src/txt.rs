//! Texts of syntactically constant shape (CBMC only keeps a loop bounded when the length is a
//! compile-time constant: N characters, W words at the given spans) with symbolic contents.
//! Satisfies the tokeniser output contract WF by construction (DESIGN.md §4).
use lucid_suggest_core::lang::CharClass;
use lucid_suggest_core::tokenization::{WordShape, TextOwn, TextRef};
use crate::{nd, build};

pub struct Txt<const N: usize, const W: usize> {
    pub chars: [char; N],
    pub classes: [CharClass; N],
    pub words: [WordShape; W],
}

#[derive(Clone, Copy, PartialEq)]
pub enum Mode {
    /// chars symbolic, classes Any, stem = len, no part of speech (index / store level)
    Plain,
    /// chars, classes (tokeniser-assignable), stems in 1..=len, part-of-speech flag all symbolic
    Full,
}

pub fn any_txt<const N: usize, const W: usize>(spans: [(usize, usize); W], last_fin: bool, mode: Mode) -> Txt<N, W> {
    let chars: [char; N] = nd::any_chars();
    let mut classes = [CharClass::Any; N];
    if mode == Mode::Full {
        let mut i = 0;
        while i < N { classes[i] = CharClass::NotAlpha; i += 1; }
    }
    let words: [WordShape; W] = core::array::from_fn(|w| {
        let (lo, hi) = spans[w];
        let fin = if w + 1 == W { last_fin } else { true };
        if mode == Mode::Full { build::word(w, lo, hi, fin) }
        else { WordShape { offset: w, slice: (lo, hi), stem: hi - lo, pos: None, fin } }
    });
    if mode == Mode::Full {
        let mut w = 0;
        while w < W {
            let mut i = spans[w].0;
            while i < spans[w].1 { classes[i] = build::any_token_class(); i += 1; }
            w += 1;
        }
    }
    Txt { chars, classes, words }
}

/// Like `any_txt(.., Mode::Full)` but with CONCRETE stem lengths (the matcher's scan range
/// depends on them; concrete stems keep its loops bounded by the shape).
pub fn any_txt_stems<const N: usize, const W: usize>(spans: [(usize, usize); W], stems: [usize; W], last_fin: bool) -> Txt<N, W> {
    let mut t = any_txt::<N, W>(spans, last_fin, Mode::Full);
    let mut w = 0;
    while w < W { t.words[w].stem = stems[w]; w += 1; }
    t
}

impl<const N: usize, const W: usize> Txt<N, W> {
    pub fn text(&self) -> TextRef<'_> {
        TextRef { words: &self.words, source: &self.chars, chars: &self.chars, classes: &self.classes }
    }
    pub fn own(&self) -> TextOwn {
        TextOwn { words: self.words.to_vec(), source: self.chars.to_vec(), chars: self.chars.to_vec(), classes: self.classes.to_vec() }
    }
    pub fn word(&self, w: usize) -> &[char] {
        &self.chars[self.words[w].slice.0..self.words[w].slice.1]
    }
}
