//! C17 (and the Jaccard part of C19): real `Jaccard::<char>` against the set definition.
use lucid_suggest_core::verif_hooks::{Jaccard, simple_similarity};
use crate::nd;

/// |set(a) ∩ set(b)| and |set(a) ∪ set(b)| over fixed-size arrays, no heap, no sorting.
pub fn set_counts<const LA: usize, const LB: usize>(a: &[char; LA], b: &[char; LB]) -> (usize, usize) {
    let mut da = 0; // distinct in a
    let mut inter = 0;
    let mut i = 0;
    while i < LA {
        let mut first = true;
        let mut j = 0;
        while j < i { if a[j] == a[i] { first = false; } j += 1; }
        if first {
            da += 1;
            let mut inb = false;
            let mut k = 0;
            while k < LB { if b[k] == a[i] { inb = true; } k += 1; }
            if inb { inter += 1; }
        }
        i += 1;
    }
    let mut db = 0;
    let mut i = 0;
    while i < LB {
        let mut first = true;
        let mut j = 0;
        while j < i { if b[j] == b[i] { first = false; } j += 1; }
        if first { db += 1; }
        i += 1;
    }
    (inter, da + db - inter)
}

fn expected(inter: usize, union: usize) -> f64 {
    if union == 0 { 1.0 } else { inter as f64 / union as f64 }
}

/// Fresh instance, ONE call (after `dedup` the buffer lengths are data dependent, so every
/// further call on the same instance is covered by `history` with explicit pre-lengths):
/// value equals the set similarity and lies in [0,1].
pub fn fresh<const LA: usize, const LB: usize>() {
    let a: [char; LA] = nd::any_chars();
    let b: [char; LB] = nd::any_chars();
    let j = Jaccard::<char>::new();
    let s1 = j.similarity(&a, &b);
    let (inter, union) = set_counts(&a, &b);
    let want = expected(inter, union);
    assert!(s1 == want, "C17: similarity != |A∩B|/|A∪B|");
    assert!(s1 >= 0.0 && s1 <= 1.0, "C17: similarity outside [0,1]");
    crate::witness!(LA == 0 || LB == 0 || (LA == 1 && LB == 1) || (inter > 0 && inter < union), "end reachable with a partial overlap (where the shape allows one)");
    std::mem::forget(j);
}

/// Symmetry and `rel_dist`, on independent instances.
pub fn sym<const LA: usize, const LB: usize>() {
    let a: [char; LA] = nd::any_chars();
    let b: [char; LB] = nd::any_chars();
    let j1 = Jaccard::<char>::new();
    let j2 = Jaccard::<char>::new();
    let s1 = j1.similarity(&a, &b);
    let d2 = j2.rel_dist(&b, &a);
    assert!(d2 == 1.0 - s1, "C17: rel_dist(b,a) != 1 - similarity(a,b)");
    crate::witness!(LA == 0 || LB == 0 || (LA == 1 && LB == 1) || (s1 > 0.0 && s1 < 1.0), "end reachable with a partial overlap (where the shape allows one)");
    std::mem::forget(j1);
    std::mem::forget(j2);
}

/// History independence (C17-H) and in-range merge reads (C19): the two scratch buffers
/// start with ARBITRARY contents of length P1 / P2 (shorter, equal or longer than needed).
pub fn history<const LA: usize, const LB: usize, const P1: usize, const P2: usize>() {
    let a: [char; LA] = nd::any_chars();
    let b: [char; LB] = nd::any_chars();
    let j = Jaccard::<char>::new();
    {
        let (s1, s2) = j.verif_buffers();
        let p1: [char; P1] = nd::any_chars();
        let p2: [char; P2] = nd::any_chars();
        if P1 > 0 { s1.borrow_mut().extend_from_slice(&p1); }
        if P2 > 0 { s2.borrow_mut().extend_from_slice(&p2); }
    }
    let s = j.similarity(&a, &b);
    let (inter, union) = set_counts(&a, &b);
    assert!(s == expected(inter, union), "C17-H: value depends on earlier buffer contents");
    crate::witness!(LA == 0 || LB == 0 || (LA == 1 && LB == 1) || (inter > 0 && inter < union), "end reachable with a partial overlap (where the shape allows one)");
    std::mem::forget(j);
}

/// As `history`, but the two scratch buffers are vectors of CAPACITY C1 / C2 (full of arbitrary
/// characters): growth beyond the capacity - which the library only meets for sequences longer
/// than 20 - is exercised at small scale (C19: every write stays inside the allocation).
pub fn history_cap<const LA: usize, const LB: usize, const C1: usize, const C2: usize>() {
    let a: [char; LA] = nd::any_chars();
    let b: [char; LB] = nd::any_chars();
    let j = Jaccard::<char>::new();
    {
        let (s1, s2) = j.verif_buffers();
        let mut v1: Vec<char> = Vec::with_capacity(C1);
        let mut i = 0;
        while i < C1 { v1.push(nd::any_char()); i += 1; }
        let mut v2: Vec<char> = Vec::with_capacity(C2);
        let mut i = 0;
        while i < C2 { v2.push(nd::any_char()); i += 1; }
        std::mem::forget(std::mem::replace(&mut *s1.borrow_mut(), v1));
        std::mem::forget(std::mem::replace(&mut *s2.borrow_mut(), v2));
    }
    let s = j.similarity(&a, &b);
    let (inter, union) = set_counts(&a, &b);
    assert!(s == expected(inter, union), "C17-H: value depends on earlier buffer contents / capacity");
    crate::witness!(LA == 0 || LB == 0 || (LA == 1 && LB == 1) || (inter > 0 && inter < union), "end reachable with a partial overlap (where the shape allows one)");
    std::mem::forget(j);
}

/// `simple_similarity` on already sorted, deduplicated input (what `similarity` feeds it).
pub fn simple<const LA: usize, const LB: usize>() {
    let a: [char; LA] = nd::any_chars();
    let b: [char; LB] = nd::any_chars();
    let mut i = 1;
    while i < LA { nd::assume(a[i - 1] < a[i]); i += 1; }
    let mut i = 1;
    while i < LB { nd::assume(b[i - 1] < b[i]); i += 1; }
    let s = simple_similarity(&a[..], &b[..]);
    let (inter, union) = set_counts(&a, &b);
    if union > 0 {
        assert!(s == inter as f64 / union as f64, "C17: merge count wrong");
    }
    crate::witness!(LA == 0 || LB == 0 || (LA == 1 && LB == 1) || (inter > 0 && inter < union), "end reachable with a partial overlap (where the shape allows one)");
}

crate::inst! { [stub_sort_char]
    jac_fresh_0_0 = fresh<0,0>; jac_fresh_0_2 = fresh<0,2>; jac_fresh_2_0 = fresh<2,0>;
    jac_fresh_1_1 = fresh<1,1>; jac_fresh_1_2 = fresh<1,2>; jac_fresh_2_2 = fresh<2,2>;
    jac_fresh_2_3 = fresh<2,3>; jac_fresh_3_2 = fresh<3,2>; jac_fresh_3_3 = fresh<3,3>;
    jac_fresh_1_4 = fresh<1,4>; jac_fresh_4_1 = fresh<4,1>;
    jac_fresh_3_4 = fresh<3,4>; jac_fresh_4_3 = fresh<4,3>; jac_fresh_4_4 = fresh<4,4>;
    jac_fresh_2_5 = fresh<2,5>; jac_fresh_5_2 = fresh<5,2>; jac_fresh_4_5 = fresh<4,5>;
    jac_fresh_5_4 = fresh<5,4>; jac_fresh_5_5 = fresh<5,5>;
    jac_sym_2_2 = sym<2,2>; jac_sym_3_2 = sym<3,2>; jac_sym_3_4 = sym<3,4>; jac_sym_0_3 = sym<0,3>;
    jac_hist_2_2_0_3 = history<2,2,0,3>; jac_hist_2_2_1_3 = history<2,2,1,3>; jac_hist_2_3_1_5 = history<2,3,1,5>;
    jac_hist_3_3_5_1 = history<3,3,5,1>; jac_hist_3_2_3_2 = history<3,2,3,2>;
    jac_hist_4_4_6_1 = history<4,4,6,1>; jac_hist_4_3_1_6 = history<4,3,1,6>;
    jac_cap_1_3_1_1 = history_cap<1,3,1,1>; jac_cap_3_1_1_1 = history_cap<3,1,1,1>; jac_cap_2_3_1_1 = history_cap<2,3,1,1>; jac_cap_3_2_1_2 = history_cap<3,2,1,2>; jac_cap_2_3_2_2 = history_cap<2,3,2,2>; jac_cap_3_3_2_1 = history_cap<3,3,2,1>;
    jac_simple_3_3 = simple<3,3>; jac_simple_2_4 = simple<2,4>; jac_simple_4_4 = simple<4,4>;
    jac_simple_5_5 = simple<5,5>; jac_simple_0_3 = simple<0,3>; jac_simple_6_6 = simple<6,6>;
}
