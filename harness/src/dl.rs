//! C16 (laws of the weighted Damerau-Levenshtein distance) and the matrix part of C19.
//! Real `DamerauLevenshtein::distance` + `DistMatrix` on all-symbolic words of fixed lengths.
use lucid_suggest_core::lang::CharClass;
use lucid_suggest_core::tokenization::{WordShape, WordView, TextRef};
use lucid_suggest_core::verif_hooks::{DamerauLevenshtein, DistMatrix};
use crate::{nd, build, model};

fn shape(n: usize) -> [WordShape; 1] {
    [WordShape { offset: 0, slice: (0, n), stem: n, pos: None, fin: true }]
}

macro_rules! views {
    ($c1:ident, $k1:ident, $v1:ident, $n1:expr; $c2:ident, $k2:ident, $v2:ident, $n2:expr) => {
        let w1 = shape($n1);
        let w2 = shape($n2);
        let t1 = build::text(&w1, &$c1, &$k1);
        let t2 = build::text(&w2, &$c2, &$k2);
        let $v1 = w1[0].to_view(&t1);
        let $v2 = w2[0].to_view(&t2);
    };
}

/// Laws on a fresh instance of capacity CAP (20 is the library's):
/// zero iff equal, multiple of 0.5, <= Levenshtein, >= half unrestricted Damerau-Levenshtein.
pub fn laws<const N1: usize, const N2: usize, const CAP: usize>() {
    let c1: [char; N1] = nd::any_chars();
    let c2: [char; N2] = nd::any_chars();
    let k1: [CharClass; N1] = build::any_classes();
    let k2: [CharClass; N2] = build::any_classes();
    views!(c1, k1, v1, N1; c2, k2, v2, N2);
    let dl = DamerauLevenshtein::verif_with_capacity(CAP);
    let d = dl.distance(&v1, &v2);
    let eq = model::slices_equal(&c1, &c2);
    assert!((d == 0.0) == eq, "C16: distance is zero exactly when the words are equal");
    assert!(d >= 0.0, "C16: distance is negative");
    let twice = d * 2.0;
    assert!(twice == (twice as u32) as f64, "C16: distance is not a multiple of 0.5");
    let lev = model::levenshtein(&c1, &c2);
    assert!(d <= lev as f64, "C16: distance exceeds the plain Levenshtein distance");
    let dam = model::damerau_unrestricted(&c1, &c2);
    assert!(twice >= dam as f64, "C16: distance below half the unrestricted Damerau-Levenshtein distance");
    crate::witness!(N1 == 0 || N2 == 0 || (d > 0.0 && d < lev as f64), "a discounted non-zero distance is reachable");
    std::mem::forget(dl);
}

/// Symmetry, with the second call on the SAME instance (one step of history).
pub fn symmetric<const N1: usize, const N2: usize, const CAP: usize>() {
    let c1: [char; N1] = nd::any_chars();
    let c2: [char; N2] = nd::any_chars();
    let k1: [CharClass; N1] = build::any_classes();
    let k2: [CharClass; N2] = build::any_classes();
    views!(c1, k1, v1, N1; c2, k2, v2, N2);
    let dl = DamerauLevenshtein::verif_with_capacity(CAP);
    let d12 = dl.distance(&v1, &v2);
    let d21 = dl.distance(&v2, &v1);
    assert!(d12 == d21, "C16: distance is not symmetric");
    crate::witness!(N1 == 0 || N2 == 0 || d12 > 0.0, "non-zero distance reachable");
    std::mem::forget(dl);
}

/// Discounts only lower: the distance with arbitrary classes never exceeds the distance of the
/// same characters with every class Consonant (full cost).
pub fn discount<const N1: usize, const N2: usize, const CAP: usize>() {
    let c1: [char; N1] = nd::any_chars();
    let c2: [char; N2] = nd::any_chars();
    let k1: [CharClass; N1] = build::any_classes();
    let k2: [CharClass; N2] = build::any_classes();
    let f1 = [CharClass::Consonant; N1];
    let f2 = [CharClass::Consonant; N2];
    views!(c1, k1, v1, N1; c2, k2, v2, N2);
    views!(c1, f1, u1, N1; c2, f2, u2, N2);
    let dl = DamerauLevenshtein::verif_with_capacity(CAP);
    let d = dl.distance(&v1, &v2);
    let dl2 = DamerauLevenshtein::verif_with_capacity(CAP);
    let full = dl2.distance(&u1, &u2);
    assert!(d <= full, "C16: a class discount raised the distance");
    crate::witness!(N1 == 0 || N2 == 0 || d < full, "a strict discount is reachable");
    std::mem::forget(dl);
    std::mem::forget(dl2);
}

/// Arbitrary matrix pre-state of dimension S satisfying the representation invariant
/// (sentinel row/column 0 hold S, cell (1,1) is 0); every other cell is an arbitrary float.
fn arbitrary_matrix<const S: usize>() -> DistMatrix {
    let mut raw = vec![0.0f64; S * S];
    let mut i = 0;
    while i < S {
        let mut j = 0;
        while j < S {
            raw[i * S + j] = if i == 0 || j == 0 { S as f64 }
                             else if i == 1 && j == 1 { 0.0 }
                             else { nd::any_f64() };
            j += 1;
        }
        i += 1;
    }
    DistMatrix::verif_from_raw(S, raw)
}

/// History independence (C16) and row/column range (C19): starting from ANY earlier matrix
/// (smaller than needed => growth; equal; larger) the result equals that of a fresh instance.
pub fn history<const N1: usize, const N2: usize, const S: usize>() {
    let c1: [char; N1] = nd::any_chars();
    let c2: [char; N2] = nd::any_chars();
    let k1: [CharClass; N1] = build::any_classes();
    let k2: [CharClass; N2] = build::any_classes();
    views!(c1, k1, v1, N1; c2, k2, v2, N2);
    let used = DamerauLevenshtein::verif_with_capacity(1);
    *used.dists.borrow_mut() = arbitrary_matrix::<S>();
    let d_used = used.distance(&v1, &v2);
    let fresh = DamerauLevenshtein::verif_with_capacity(if N1 > N2 { N1 } else { N2 });
    let d_fresh = fresh.distance(&v1, &v2);
    assert!(d_used == d_fresh, "C16: distance depends on what was compared before");
    crate::witness!(N1 == 0 || N2 == 0 || d_used > 0.0, "non-zero distance reachable");
    std::mem::forget(used);
    std::mem::forget(fresh);
}

/// The representation invariant used by `history` is established by `new` and preserved by a call.
pub fn invariant<const N1: usize, const N2: usize, const S: usize>() {
    let c1: [char; N1] = nd::any_chars();
    let c2: [char; N2] = nd::any_chars();
    let k1: [CharClass; N1] = build::any_classes();
    let k2: [CharClass; N2] = build::any_classes();
    views!(c1, k1, v1, N1; c2, k2, v2, N2);
    let dl = DamerauLevenshtein::verif_with_capacity(1);
    *dl.dists.borrow_mut() = arbitrary_matrix::<S>();
    dl.distance(&v1, &v2);
    let m = dl.dists.borrow();
    let s = m.verif_size();
    assert!(s >= N1 + 2 && s >= N2 + 2 && s >= S, "C19: matrix smaller than the words need");
    assert!(m.verif_raw().len() == s * s, "C19: flat buffer does not match the dimension");
    let mut i = 0;
    while i < s {
        assert!(m.get(i, 0) == s as f64 && m.get(0, i) == s as f64, "C16: sentinel row/column lost");
        i += 1;
    }
    assert!(m.get(1, 1) == 0.0, "C16: origin cell lost");
    crate::witness!(true, "end reachable");
    drop(m);
    std::mem::forget(dl);
}

/// Prefix cells: after distance(a, b) the cell for prefixes (I, J) equals the distance of those
/// prefixes computed on their own (this is what the word matcher reads).
pub fn prefix<const N1: usize, const N2: usize, const I: usize, const J: usize>() {
    let c1: [char; N1] = nd::any_chars();
    let c2: [char; N2] = nd::any_chars();
    let k1: [CharClass; N1] = build::any_classes();
    let k2: [CharClass; N2] = build::any_classes();
    views!(c1, k1, v1, N1; c2, k2, v2, N2);
    let dl = DamerauLevenshtein::verif_with_capacity(if N1 > N2 { N1 } else { N2 });
    dl.distance(&v1, &v2);
    let cell = dl.dists.borrow().get(I + 1, J + 1);
    let w1 = shape(I);
    let w2 = shape(J);
    let t1 = build::text(&w1, &c1, &k1);
    let t2 = build::text(&w2, &c2, &k2);
    let p1 = w1[0].to_view(&t1);
    let p2 = w2[0].to_view(&t2);
    let dl2 = DamerauLevenshtein::verif_with_capacity(if N1 > N2 { N1 } else { N2 });
    let own = dl2.distance(&p1, &p2);
    assert!(cell == own, "C16: prefix cell differs from the distance of the prefixes");
    crate::witness!(I == 0 || J == 0 || own > 0.0, "non-zero prefix distance reachable");
    std::mem::forget(dl);
    std::mem::forget(dl2);
}

crate::inst! { []
    dl_laws_0_0_20 = laws<0,0,20>; dl_laws_0_2_20 = laws<0,2,20>; dl_laws_1_1_20 = laws<1,1,20>;
    dl_laws_1_2_20 = laws<1,2,20>; dl_laws_2_1_20 = laws<2,1,20>; dl_laws_2_2_20 = laws<2,2,20>;
    dl_laws_2_2_2 = laws<2,2,2>; dl_laws_2_3_3 = laws<2,3,3>; dl_laws_3_2_3 = laws<3,2,3>; dl_laws_3_3_3 = laws<3,3,3>;
    dl_laws_3_3_20 = laws<3,3,20>; dl_laws_3_4_4 = laws<3,4,4>; dl_laws_4_3_4 = laws<4,3,4>; dl_laws_4_4_4 = laws<4,4,4>;
    dl_laws_2_5_5 = laws<2,5,5>; dl_laws_5_2_5 = laws<5,2,5>; dl_laws_3_1_1 = laws<3,1,1>; dl_laws_2_4_1 = laws<2,4,1>;
    dl_sym_1_2_2 = symmetric<1,2,2>; dl_sym_2_2_2 = symmetric<2,2,2>; dl_sym_2_3_3 = symmetric<2,3,3>;
    dl_sym_3_3_3 = symmetric<3,3,3>; dl_sym_3_4_4 = symmetric<3,4,4>; dl_sym_2_3_1 = symmetric<2,3,1>;
    dl_disc_2_2_2 = discount<2,2,2>; dl_disc_2_3_3 = discount<2,3,3>; dl_disc_3_3_3 = discount<3,3,3>; dl_disc_3_4_4 = discount<3,4,4>;
    dl_hist_2_2_2 = history<2,2,2>; dl_hist_2_2_4 = history<2,2,4>; dl_hist_2_2_6 = history<2,2,6>;
    dl_hist_3_2_3 = history<3,2,3>; dl_hist_2_3_5 = history<2,3,5>; dl_hist_3_3_2 = history<3,3,2>;
    dl_hist_3_3_5 = history<3,3,5>; dl_hist_3_3_7 = history<3,3,7>; dl_hist_1_3_4 = history<1,3,4>; dl_hist_4_3_3 = history<4,3,3>;
    dl_hist_2_2_3 = history<2,2,3>; dl_hist_2_2_5 = history<2,2,5>; dl_hist_1_1_2 = history<1,1,2>; dl_hist_1_2_3 = history<1,2,3>;
    dl_hist_3_1_4 = history<3,1,4>; dl_hist_1_4_5 = history<1,4,5>; dl_hist_3_1_5 = history<3,1,5>; dl_hist_1_3_5 = history<1,3,5>; dl_hist_4_1_6 = history<4,1,6>;
    dl_hist_3_3_4 = history<3,3,4>; dl_hist_3_3_3 = history<3,3,3>; dl_inv_2_2_3 = invariant<2,2,3>; dl_inv_2_2_4 = invariant<2,2,4>; dl_inv_1_2_3 = invariant<1,2,3>;
    dl_inv_2_2_2 = invariant<2,2,2>; dl_inv_2_3_5 = invariant<2,3,5>; dl_inv_3_1_6 = invariant<3,1,6>; dl_inv_0_2_3 = invariant<0,2,3>;
    dl_inv_3_3_4 = invariant<3,3,4>;
    dl_prefix_2_2_1_1 = prefix<2,2,1,1>; dl_prefix_2_2_1_2 = prefix<2,2,1,2>; dl_prefix_3_3_2_2 = prefix<3,3,2,2>;
    dl_prefix_3_3_2_3 = prefix<3,3,2,3>; dl_prefix_3_3_3_2 = prefix<3,3,3,2>; dl_prefix_3_2_2_1 = prefix<3,2,2,1>;
    dl_prefix_3_3_1_3 = prefix<3,3,1,3>; dl_prefix_4_3_3_3 = prefix<4,3,3,3>; dl_prefix_3_4_2_4 = prefix<3,4,2,4>;
}
