//! C15 (tokeniser output contract WF) for the POST-NORMALISATION chain of `tokenize_query` /
//! `tokenize_record`: from_vec -> [fin(false)] -> split -> strip -> lower -> set_pos ->
//! set_char_classes -> set_stem, with `Lang::new()`, on symbolic strings over a small ASCII
//! alphabet (Unicode classification of an unconstrained `char` is out of reach, DESIGN F6).
//! `Text::normalize` is not executed (F5); with `Lang::new()` it is the identity.
use lucid_suggest_core::lang::{CharClass, Lang};
use lucid_suggest_core::tokenization::{TextOwn, Word};
use crate::nd;

/// letters (lower / upper case), digit, space, tab (whitespace AND control), two punctuation
/// marks of the splitter, one non-alphanumeric that is NOT a splitter ('_'), one more letter.
fn any_ascii<const N: usize>() -> [char; N] {
    let mut out = ['a'; N];
    let mut i = 0;
    while i < N {
        out[i] = match nd::below(9) { 0 => 'a', 1 => 'b', 2 => 'A', 3 => '1', 4 => ' ', 5 => '-', 6 => '.', 7 => '_', _ => '\t' };
        i += 1;
    }
    out
}

fn alnum(c: char) -> bool { matches!(c, 'a' | 'b' | 'A' | '1') }
fn splitter(c: char) -> bool { matches!(c, ' ' | '-' | '.' | '\t') }
fn lower(c: char) -> char { if c == 'A' { 'a' } else { c } }

pub fn tok_case<const N: usize, const QUERY: bool>() {
    let v: [char; N] = any_ascii();
    let lang = Lang::new();
    let t = TextOwn::from_vec(v.to_vec());
    let t = if QUERY { t.fin(false) } else { t };
    let t = t
        .split(&[CharClass::Whitespace, CharClass::Control, CharClass::Punctuation], &lang)
        .strip(&[CharClass::NotAlphaNum], &lang)
        .lower()
        .set_pos(&lang)
        .set_char_classes(&lang)
        .set_stem(&lang);
    assert!(t.source.len() == N && t.chars.len() == N && t.classes.len() == N, "C15: original, normalised and class arrays differ in length");
    let mut i = 0;
    while i < N {
        assert!(t.source[i] == v[i], "C15/C02: original array is not the input");
        assert!(t.chars[i] == lower(v[i]), "C15: normalised character is not the lower-cased input character");
        i += 1;
    }
    let nw = t.words.len();
    assert!(nw <= N, "C15: more words than characters");
    let mut covered = [0u8; N];
    let mut w = 0;
    while w < nw {
        let word = &t.words[w];
        let (lo, hi) = word.slice;
        assert!(word.offset == w, "C15: words not consecutively numbered");
        assert!(lo < hi && hi <= N, "C15: empty or out-of-bounds word");
        if w > 0 { assert!(t.words[w - 1].slice.1 <= lo, "C15: words overlap or are out of order"); }
        assert!(alnum(v[lo]) && alnum(v[hi - 1]), "C15: word does not begin and end with a letter or digit");
        assert!(word.stem >= 1 && word.stem <= hi - lo, "C15: stem length outside 1..=len");
        let mut k = lo;
        while k < hi {
            assert!(!splitter(v[k]), "C15: whitespace / control / punctuation inside a word");
            assert!(t.chars[k] != 'A', "C15: upper-case character inside a word");
            covered[k] += 1;
            k += 1;
        }
        if !QUERY || w + 1 < nw { assert!(word.fin, "C15: a record word or a non-final query word is unfinished"); }
        w += 1;
    }
    let mut i = 0;
    while i < N {
        if alnum(v[i]) { assert!(covered[i] == 1, "C15: a letter or digit is not in exactly one word"); }
        i += 1;
    }
    if QUERY && nw > 0 {
        let last = &t.words[nw - 1];
        assert!(last.fin == (last.slice.1 < N), "C15: the last query word must be unfinished exactly when nothing follows it");
    }
    crate::witness!(N < 3 || nw >= 2, "two words reachable");
    std::mem::forget(t); std::mem::forget(lang);
}

macro_rules! cases {
    ($($name:ident = $body:expr;)*) => {
        $(
            #[cfg_attr(kani, kani::proof)]
            pub fn $name() { $body }
        )*
        pub const ALL: &[(&str, fn())] = &[ $( (stringify!($name), $name as fn()) ),* ];
    };
}

cases! {
    tok_q_1 = tok_case::<1, true>(); tok_q_2 = tok_case::<2, true>(); tok_q_3 = tok_case::<3, true>(); tok_q_4 = tok_case::<4, true>();
    tok_r_1 = tok_case::<1, false>(); tok_r_2 = tok_case::<2, false>(); tok_r_3 = tok_case::<3, false>(); tok_r_4 = tok_case::<4, false>();
    tok_q_5 = tok_case::<5, true>(); tok_r_5 = tok_case::<5, false>();
}
