//! C02 / C09 at the rendering level: the real `highlight()` on a CONCRETE ASCII title (one NUL
//! padding character included) with SYMBOLIC match structure (which words carry a match, how
//! long each span is) and concrete one-character markers. Symbolic characters are out of reach
//! (DESIGN F11); positions are what this lemma is about.
use lucid_suggest_core::lang::CharClass;
use lucid_suggest_core::tokenization::{WordShape, TextRef};
use lucid_suggest_core::verif_hooks::{self as vh, Hit, WordMatch};
use crate::nd;

/// Title "ab\0c d": words "ab\0c" -> normalised 4 characters (0,4) and "d" (5,6).
pub fn render_case() {
    let source: [char; 6] = ['a', 'b', '\0', 'c', ' ', 'd'];
    let classes = [CharClass::Any; 6];
    let words = [
        WordShape { offset: 0, slice: (0, 4), stem: 4, pos: None, fin: true },
        WordShape { offset: 1, slice: (5, 6), stem: 1, pos: None, fin: true },
    ];
    let title = TextRef { words: &words, source: &source, chars: &source, classes: &classes };
    let m0 = nd::any_bool();
    let k0 = nd::in_range(1, 4);
    let m1 = nd::any_bool();
    let mut rm: Vec<WordMatch> = Vec::with_capacity(2);
    if m0 { rm.push(WordMatch { offset: 0, slice: (0, 4), subslice: (0, k0), typos: 0.0, func: false, fin: true }); }
    if m1 { rm.push(WordMatch { offset: 1, slice: (5, 6), subslice: (0, 1), typos: 0.0, func: false, fin: true }); }
    let hit = Hit { id: 1, title, rating: 0, rmatches: rm, qmatches: Vec::with_capacity(1), scores: Default::default() };
    let (l, r) = (['['], [']']);
    let out = vh::highlight(&hit, (&l, &r));
    // expected rendering, computed position by position
    let mut want = [0u8; 12];
    let mut n = 0;
    let mut i = 0;
    while i < 6 {
        if (m0 && i == 0) || (m1 && i == 5) { want[n] = b'['; n += 1; }
        if source[i] != '\0' { want[n] = source[i] as u8; n += 1; }
        if (m0 && i + 1 == k0) || (m1 && i == 5) { want[n] = b']'; n += 1; }
        i += 1;
    }
    let bytes = out.as_bytes();
    assert!(bytes.len() == n, "C02/C09: rendered title has the wrong length (a character or marker dropped or duplicated)");
    let mut j = 0;
    while j < 12 {
        if j < n { assert!(bytes[j] == want[j], "C02/C09: rendered title differs from the stored title with markers at the match boundaries"); }
        j += 1;
    }
    let mut j = 0;
    while j < 12 { if j < n { assert!(bytes[j] != 0, "C02: NUL in a returned title"); } j += 1; }
    crate::witness!(m0 && m1 && k0 == 3, "both words highlighted, first one partially");
    std::mem::forget(hit); std::mem::forget(out);
}

#[cfg_attr(kani, kani::proof)]
pub fn hl_render() { render_case() }
pub const ALL: &[(&str, fn())] = &[("hl_render", hl_render as fn())];
