//! C18: the trigram index (`TrigramIndex::add` / `prepare`, `TrigramIter`) against gram sets
//! recomputed independently, and the counter part of C19.
use lucid_suggest_core::lang::CharClass;
use lucid_suggest_core::tokenization::{WordShape, TextOwn, TextRef};
use lucid_suggest_core::verif_hooks::{TrigramIndex, Trigrams};
use lucid_suggest_core::Record;
use crate::{nd, build};
use crate::txt::{Txt, Mode, any_txt};

pub const MAXG: usize = 12;  // grams per text
pub const MAXR: usize = 12;  // records

/// Gram set of a text, by definition: for every word its 1-letter start, 2-letter start and all
/// its trigrams (padding with NUL), deduplicated.
pub fn grams<const N: usize, const W: usize>(t: &Txt<N, W>) -> ([[char; 3]; MAXG], usize) {
    let mut out = [['\0'; 3]; MAXG];
    let mut n = 0;
    let mut w = 0;
    while w < W {
        let (lo, hi) = t.words[w].slice;
        let len = hi - lo;
        let mut cand = [['\0'; 3]; MAXG];
        let mut nc = 0;
        if len >= 1 { cand[nc] = [t.chars[lo], '\0', '\0']; nc += 1; }
        if len >= 2 { cand[nc] = [t.chars[lo], t.chars[lo + 1], '\0']; nc += 1; }
        let mut i = 0;
        while len >= 3 && i + 3 <= len { cand[nc] = [t.chars[lo + i], t.chars[lo + i + 1], t.chars[lo + i + 2]]; nc += 1; i += 1; }
        let mut c = 0;
        while c < nc {
            let mut dup = false;
            let mut k = 0;
            while k < n { if geq(&out[k], &cand[c]) { dup = true; } k += 1; }
            if !dup { out[n] = cand[c]; n += 1; }
            c += 1;
        }
        w += 1;
    }
    (out, n)
}

pub fn shared_sets(ga: &([[char; 3]; MAXG], usize), gb: &([[char; 3]; MAXG], usize)) -> usize {
    let mut s = 0;
    let mut i = 0;
    while i < ga.1 {
        let mut j = 0;
        while j < gb.1 { if geq(&ga.0[i], &gb.0[j]) { s += 1; } j += 1; }
        i += 1;
    }
    s
}

fn geq(a: &[char; 3], b: &[char; 3]) -> bool { a[0] == b[0] && a[1] == b[1] && a[2] == b[2] }

fn is(g: Option<[char; 3]>, a: char, b: char, c: char) -> bool {
    match g { Some(x) => x[0] == a && x[1] == b && x[2] == c, None => false }
}

/// `TrigramIter` yields exactly the grams of the definition, in order, for a word of length N.
pub fn iter_def<const N: usize>() {
    let c: [char; N] = nd::any_chars();
    let mut it = c[..].trigrams();
    let mut n = 0;
    if N >= 1 { assert!(is(it.next(), c[0], '\0', '\0'), "C18: 1-letter start gram missing"); n += 1; }
    if N >= 2 { assert!(is(it.next(), c[0], c[1], '\0'), "C18: 2-letter start gram missing"); n += 1; }
    let mut i = 0;
    while N >= 3 && i + 3 <= N { assert!(is(it.next(), c[i], c[i + 1], c[i + 2]), "C18: trigram missing"); i += 1; }
    assert!(it.next().is_none(), "C18: extra gram");
    crate::witness!(true, "end reachable");
}

/// C03 glue: a K-letter prefix of an N-letter word shares a gram with the word (its 1-letter
/// start), so the index lists the record for the prefix query (given IDX completeness).
pub fn prefix_shares_gram<const N: usize, const K: usize>() {
    let w = any_txt::<N, 1>([(0, N)], true, Mode::Plain);
    let mut p = any_txt::<K, 1>([(0, K)], false, Mode::Plain);
    let mut i = 0;
    while i < K { p.chars[i] = w.chars[i]; i += 1; }
    let gw = TrigramIndex::verif_collect_grams(&w.text());
    let gp = TrigramIndex::verif_collect_grams(&p.text());
    let mut common = 0;
    let mut i = 0;
    while i < gp.len() {
        let mut j = 0;
        while j < gw.len() { if geq(&gp[i], &gw[j]) { common += 1; } j += 1; }
        i += 1;
    }
    assert!(common >= 1, "C03: a prefix of a title word shares no gram with the word");
    // collect_grams returns the gram SET of the definition: strictly increasing, and exactly the grams of `grams`
    let (def, nd_) = grams(&w);
    assert!(gw.len() == nd_, "C18: collect_grams size differs from the number of distinct grams");
    let mut i = 0;
    while i < gw.len() {
        if i > 0 { assert!(gw[i - 1] < gw[i], "C18: collected grams not strictly increasing (duplicates)"); }
        let mut found = false;
        let mut j = 0;
        while j < nd_ { if geq(&gw[i], &def[j]) { found = true; } j += 1; }
        assert!(found, "C18: collected gram is not a gram of the word");
        i += 1;
    }
    crate::witness!(N < 2 || gw.len() >= 2, "more than one gram reachable");
    std::mem::forget(gw); std::mem::forget(gp);
}

/// K records, each one text of N characters with W words at `rspans` (positions 0..K as
/// `Store::add` assigns them), then `prepare(query, size)`; the query has QN characters and QW
/// words at `qspans`. All characters symbolic.
pub fn prepare_case<const K: usize, const N: usize, const W: usize, const QN: usize, const QW: usize>(
    rspans: [(usize, usize); W], qspans: [(usize, usize); QW], size: usize,
) {
    let mut index = TrigramIndex::new();
    let txts: [Txt<N, W>; K] = core::array::from_fn(|_| any_txt::<N, W>(rspans, true, Mode::Plain));
    let mut r = 0;
    while r < K {
        let rec = Record { ix: r, id: 100 + r, title: txts[r].own(), rating: 0 };
        index.add(&rec);
        std::mem::forget(rec);
        r += 1;
    }
    let qt = any_txt::<QN, QW>(qspans, true, Mode::Plain);
    let got = index.prepare(&qt.text(), size);
    // oracle
    let gq = grams(&qt);
    let mut cnt = [0usize; K];
    let mut sharers = 0;
    let mut r = 0;
    while r < K { cnt[r] = shared_sets(&grams(&txts[r]), &gq); if cnt[r] > 0 { sharers += 1; } r += 1; }
    let cap = size * 10;
    let mut listed = [false; K];
    let mut i = 0;
    while i < got.len() {
        let ix = got[i];
        assert!(ix < K, "C18: candidate position of a non-existing record");
        assert!(!listed[ix], "C18: duplicate candidate");
        listed[ix] = true;
        assert!(QW > 0 && cnt[ix] > 0, "C18: candidate shares no gram with the query");
        i += 1;
    }
    if QW == 0 {
        assert!(got.len() == 0, "C18: candidates for an empty query");
    } else if sharers <= cap {
        assert!(got.len() == sharers, "C18: a record sharing a gram is missing");
    } else {
        assert!(got.len() == cap, "C18: capped list does not have 10 x size entries");
        let mut i = 1;
        while i < got.len() { assert!(cnt[got[i - 1]] >= cnt[got[i]], "C18: capped list not ordered by shared grams"); i += 1; }
        let mut r = 0;
        while r < K {
            if !listed[r] {
                let mut i = 0;
                while i < got.len() { assert!(cnt[got[i]] >= cnt[r], "C18: omitted record shares more grams than a listed one"); i += 1; }
            }
            r += 1;
        }
    }
    assert!(index.verif_len() == K, "C18: index length differs from the number of adds");
    crate::witness!(K == 0 || QW == 0 || W == 0 || (sharers > 0 && (K < 2 || sharers < K || cap < K)), "some but not all records share a gram (where the shape allows)");
    std::mem::forget(index);
    std::mem::forget(got);
}

/// Two queries on the same index: counters of the first must not leak into the second
/// (C10 / C19: `counts` is reused).
pub fn prepare_twice<const K: usize, const N: usize, const W: usize, const QN: usize, const QW: usize>(
    rspans: [(usize, usize); W], qspans: [(usize, usize); QW], size: usize,
) {
    let mut index = TrigramIndex::new();
    let txts: [Txt<N, W>; K] = core::array::from_fn(|_| any_txt::<N, W>(rspans, true, Mode::Plain));
    let mut r = 0;
    while r < K {
        let rec = Record { ix: r, id: 100 + r, title: txts[r].own(), rating: 0 };
        index.add(&rec);
        std::mem::forget(rec);
        r += 1;
    }
    let t1 = any_txt::<QN, QW>(qspans, true, Mode::Plain);
    let first = index.prepare(&t1.text(), size);
    let t2 = any_txt::<QN, QW>(qspans, true, Mode::Plain);
    let got = index.prepare(&t2.text(), size);
    let g2 = grams(&t2);
    let mut sharers = 0;
    let mut r = 0;
    while r < K { if shared_sets(&grams(&txts[r]), &g2) > 0 { sharers += 1; } r += 1; }
    let mut i = 0;
    while i < got.len() {
        assert!(got[i] < K && shared_sets(&grams(&txts[got[i]]), &g2) > 0, "C18/C10: stale counter: candidate shares no gram with the current query");
        i += 1;
    }
    if sharers <= size * 10 { assert!(got.len() == sharers, "C18/C10: second query misses a sharer"); }
    crate::witness!(first.len() > 0 && got.len() < first.len(), "first query matched more records than the second");
    std::mem::forget(index); std::mem::forget(first); std::mem::forget(got);
}

macro_rules! cases {
    ($($name:ident = $body:expr;)*) => {
        $(
            #[cfg_attr(kani, kani::proof)]
            #[cfg_attr(kani, kani::stub(core::slice::sort::unstable::sort, crate::stubs::unstable_sort_model))]
            pub fn $name() { $body }
        )*
        pub const ALL: &[(&str, fn())] = &[ $( (stringify!($name), $name as fn()) ),* ];
    };
}

cases! {
    idx_iter_0 = iter_def::<0>(); idx_iter_1 = iter_def::<1>(); idx_iter_2 = iter_def::<2>(); idx_iter_3 = iter_def::<3>();
    idx_iter_4 = iter_def::<4>(); idx_iter_5 = iter_def::<5>(); idx_iter_6 = iter_def::<6>();
    idx_pre_1_1 = prefix_shares_gram::<1, 1>(); idx_pre_2_1 = prefix_shares_gram::<2, 1>(); idx_pre_2_2 = prefix_shares_gram::<2, 2>();
    idx_pre_3_1 = prefix_shares_gram::<3, 1>(); idx_pre_3_2 = prefix_shares_gram::<3, 2>(); idx_pre_3_3 = prefix_shares_gram::<3, 3>();
    idx_pre_4_2 = prefix_shares_gram::<4, 2>(); idx_pre_4_3 = prefix_shares_gram::<4, 3>(); idx_pre_5_4 = prefix_shares_gram::<5, 4>();
    idx_1r1_q1_s1 = prepare_case::<1, 1, 1, 1, 1>([(0, 1)], [(0, 1)], 1);
    idx_2r1_q1_s1 = prepare_case::<2, 1, 1, 1, 1>([(0, 1)], [(0, 1)], 1);
    idx_2r2_q2_s1 = prepare_case::<2, 2, 1, 2, 1>([(0, 2)], [(0, 2)], 1);
    idx_2r3_q2_s1 = prepare_case::<2, 3, 1, 2, 1>([(0, 3)], [(0, 2)], 1);
    idx_2r3_q3_s1 = prepare_case::<2, 3, 1, 3, 1>([(0, 3)], [(0, 3)], 1);
    idx_2r11_q12_s1 = prepare_case::<2, 3, 2, 4, 2>([(0, 1), (2, 3)], [(0, 1), (2, 4)], 1);
    idx_2r21_q1_s2 = prepare_case::<2, 4, 2, 1, 1>([(0, 2), (3, 4)], [(0, 1)], 2);
    idx_3r1_q1_s1 = prepare_case::<3, 1, 1, 1, 1>([(0, 1)], [(0, 1)], 1);
    idx_3r2_q2_s0 = prepare_case::<3, 2, 1, 2, 1>([(0, 2)], [(0, 2)], 0);
    idx_2r0_q1_s1 = prepare_case::<2, 1, 0, 1, 1>([], [(0, 1)], 1);
    idx_2r1_q0_s1 = prepare_case::<2, 1, 1, 1, 0>([(0, 1)], [], 1);
    idx_0r_q1_s1 = prepare_case::<0, 1, 1, 1, 1>([(0, 1)], [(0, 1)], 1);
    idx_2r4_q3_s1 = prepare_case::<2, 4, 1, 3, 1>([(0, 4)], [(0, 3)], 1);
    idx_3r3_q3_s1 = prepare_case::<3, 3, 1, 3, 1>([(0, 3)], [(0, 3)], 1);
    idx_6r1_q1_s0 = prepare_case::<6, 1, 1, 1, 1>([(0, 1)], [(0, 1)], 0);
    idx_11r1_q1_s1 = prepare_case::<11, 1, 1, 1, 1>([(0, 1)], [(0, 1)], 1);
    idx_11r2_q2_s1 = prepare_case::<11, 2, 1, 2, 1>([(0, 2)], [(0, 2)], 1);
    idx_twice_2r2 = prepare_twice::<2, 2, 1, 2, 1>([(0, 2)], [(0, 2)], 1);
    idx_twice_3r1 = prepare_twice::<3, 1, 1, 1, 1>([(0, 1)], [(0, 1)], 1);
}
